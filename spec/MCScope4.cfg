SPECIFICATION Spec
CONSTANT Dump = FALSE
INVARIANTS ValidLayout ResolutionIsFunction L2Scope L2Ser L2Unres L2CmpInv L2DedupInv
CHECK_DEADLOCK FALSE
