//! Engine A: the forest state machine.  Executes public mutating calls of xot on a `World`, one event per call,
//! logged at the call's return (also on the error / panic path) with the full abstract projection afterwards.
use crate::proj::{cps, from_cps, World};
use crate::rng::Rng;
use serde_json::{json, Value as J};
use std::panic::{catch_unwind, AssertUnwindSafe};
use xot::Node;

pub const XML_NS: &str = "http://www.w3.org/XML/1998/namespace";

#[derive(Clone, Debug, Default)]
pub struct Op {
    pub op: String,
    pub a: Vec<usize>,
    pub ns: String,
    pub ln: String,
    pub s: String,
    pub px: String,
    pub uri: String,
    pub b: bool,
}

impl Op {
    pub fn new(op: &str, a: &[usize]) -> Op {
        Op { op: op.to_string(), a: a.to_vec(), ..Default::default() }
    }
    pub fn name(mut self, ns: &str, ln: &str) -> Op {
        self.ns = ns.into();
        self.ln = ln.into();
        self
    }
    pub fn s(mut self, s: &str) -> Op {
        self.s = s.into();
        self
    }
    pub fn pxuri(mut self, px: &str, uri: &str) -> Op {
        self.px = px.into();
        self.uri = uri.into();
        self
    }
    pub fn b(mut self, b: bool) -> Op {
        self.b = b;
        self
    }
    pub fn to_json(&self) -> J {
        json!({"op": self.op, "a": self.a, "ns": self.ns, "ln": self.ln, "s": cps(&self.s), "px": self.px, "uri": self.uri, "b": self.b})
    }
    pub fn from_json(j: &J) -> Op {
        Op {
            op: j["op"].as_str().unwrap_or("").to_string(),
            a: j["a"].as_array().map(|v| v.iter().map(|x| x.as_u64().unwrap_or(0) as usize).collect()).unwrap_or_default(),
            ns: j["ns"].as_str().unwrap_or("").to_string(),
            ln: j["ln"].as_str().unwrap_or("").to_string(),
            s: from_cps(&j["s"]),
            px: j["px"].as_str().unwrap_or("").to_string(),
            uri: j["uri"].as_str().unwrap_or("").to_string(),
            b: j["b"].as_bool().unwrap_or(false),
        }
    }
}

/// Outcome of one call: result class, returned node (if the call returns one), returned value (string
/// as code points, `has` says whether an Option was Some / a value was returned at all).
pub struct Outcome {
    pub res: &'static str, // ok | err | panic | none (Option::None from an accessor that refuses)
    pub ret: Option<Node>,
    pub rv: Vec<u32>,
    pub has: bool,
    pub rvs: String,
}

fn ok() -> Outcome {
    Outcome { res: "ok", ret: None, rv: vec![], has: false, rvs: String::new() }
}
fn okn(n: Node) -> Outcome {
    Outcome { res: "ok", ret: Some(n), rv: vec![], has: false, rvs: String::new() }
}
fn okv(v: Option<String>) -> Outcome {
    match v {
        Some(s) => Outcome { res: "ok", ret: None, rv: cps(&s), has: true, rvs: String::new() },
        None => Outcome { res: "ok", ret: None, rv: vec![], has: false, rvs: String::new() },
    }
}
fn oks(v: Option<String>) -> Outcome {
    match v {
        Some(s) => Outcome { res: "ok", ret: None, rv: vec![], has: true, rvs: s },
        None => ok(),
    }
}
fn err() -> Outcome {
    Outcome { res: "err", ret: None, rv: vec![], has: false, rvs: String::new() }
}
fn none() -> Outcome {
    Outcome { res: "none", ret: None, rv: vec![], has: false, rvs: String::new() }
}
fn unit(r: Result<(), xot::Error>) -> Outcome {
    match r {
        Ok(()) => ok(),
        Err(_) => err(),
    }
}
fn node(r: Result<Node, xot::Error>) -> Outcome {
    match r {
        Ok(n) => okn(n),
        Err(_) => err(),
    }
}

fn run(w: &mut World, o: &Op) -> Outcome {
    let a: Vec<Node> = o.a.iter().map(|i| w.h(*i)).collect();
    let x = &mut w.xot;
    let mkname = |x: &mut xot::Xot| {
        let ns = x.add_namespace(&o.ns);
        x.add_name_ns(&o.ln, ns)
    };
    match o.op.as_str() {
        "append" => unit(x.append(a[0], a[1])),
        "prepend" => unit(x.prepend(a[0], a[1])),
        "insert_before" => unit(x.insert_before(a[0], a[1])),
        "insert_after" => unit(x.insert_after(a[0], a[1])),
        "any_append" => node(x.any_append(a[0], a[1])),
        "append_attribute_node" => node(x.append_attribute_node(a[0], a[1])),
        "append_namespace_node" => node(x.append_namespace_node(a[0], a[1])),
        "detach" => unit(x.detach(a[0])),
        "remove" => unit(x.remove(a[0])),
        "replace" => unit(x.replace(a[0], a[1])),
        "element_unwrap" => unit(x.element_unwrap(a[0])),
        "element_wrap" => {
            let n = mkname(x);
            node(x.element_wrap(a[0], n))
        }
        "clone_node" => okn(x.clone_node(a[0])),
        "clone_with_prefixes" => okn(x.clone_with_prefixes(a[0])),
        "new_document_with_element" => node(x.new_document_with_element(a[0])),
        "new_document" => okn(x.new_document()),
        "new_element" => {
            let n = mkname(x);
            okn(x.new_element(n))
        }
        "new_text" => okn(x.new_text(&o.s)),
        "new_comment" => okn(x.new_comment(&o.s)),
        "new_pi" => {
            let n = mkname(x);
            okn(x.new_processing_instruction(n, if o.b { Some(o.s.as_str()) } else { None }))
        }
        "new_attribute_node" => {
            let n = mkname(x);
            okn(x.new_attribute_node(n, o.s.clone()))
        }
        "new_namespace_node" => {
            let p = x.add_prefix(&o.px);
            let ns = x.add_namespace(&o.uri);
            okn(x.new_namespace_node(p, ns))
        }
        "append_text" => unit(x.append_text(a[0], &o.s)),
        "append_element" => {
            let n = mkname(x);
            unit(x.append_element(a[0], n))
        }
        "append_comment" => unit(x.append_comment(a[0], &o.s)),
        "append_pi" => {
            let n = mkname(x);
            unit(x.append_processing_instruction(a[0], n, if o.b { Some(o.s.as_str()) } else { None }))
        }
        "append_namespace" => {
            let cn = xot::xmlname::CreateNamespace::new(x, &o.px, &o.uri);
            node(x.append_namespace(a[0], &cn))
        }
        "set_element_name" => {
            let n = mkname(x);
            x.set_element_name(a[0], n);
            ok()
        }
        "element_mut_set_name" => {
            let n = mkname(x);
            match x.element_mut(a[0]) {
                Some(el) => {
                    el.set_name(n);
                    ok()
                }
                None => none(),
            }
        }
        "pi_set_target" => {
            let n = mkname(x);
            match x.processing_instruction_mut(a[0]) {
                Some(pi) => match pi.set_target::<String>(n) {
                    Ok(()) => ok(),
                    Err(_) => err(),
                },
                None => none(),
            }
        }
        "text_set" => match x.text_mut(a[0]) {
            Some(t) => {
                t.set(o.s.clone());
                ok()
            }
            None => none(),
        },
        "comment_set" => match x.comment_mut(a[0]) {
            Some(c) => match c.set(o.s.clone()) {
                Ok(()) => ok(),
                Err(_) => err(),
            },
            None => none(),
        },
        "pi_set_data" => match x.processing_instruction_mut(a[0]) {
            Some(pi) => {
                pi.set_data(if o.b { Some(o.s.clone()) } else { None });
                ok()
            }
            None => none(),
        },
        "attr_set_value" => match x.attribute_node_mut(a[0]) {
            Some(at) => {
                at.set_value(o.s.clone());
                ok()
            }
            None => none(),
        },
        "nsnode_set_namespace" => {
            let ns = x.add_namespace(&o.uri);
            match x.namespace_node_mut(a[0]) {
                Some(n) => {
                    n.set_namespace(ns);
                    ok()
                }
                None => none(),
            }
        }
        "text_content_set" => match x.text_content_mut(a[0]) {
            Some(t) => {
                t.set(o.s.clone());
                ok()
            }
            None => none(),
        },
        // ---- attribute map
        "set_attribute" => {
            let n = mkname(x);
            x.set_attribute(a[0], n, o.s.clone());
            ok()
        }
        "remove_attribute" => {
            let n = mkname(x);
            x.remove_attribute(a[0], n);
            ok()
        }
        "attr_insert" => {
            let n = mkname(x);
            okv(x.attributes_mut(a[0]).insert(n, o.s.clone()))
        }
        "attr_session" => {
            // two insertions through ONE mutable view: (ns, ln) := s, then ("", px) := "w"; the second result is reported
            let n = mkname(x);
            let n2 = x.add_name(&o.px);
            let mut m = x.attributes_mut(a[0]);
            m.insert(n, o.s.clone());
            okv(m.insert(n2, "w".to_string()))
        }
        "ns_session" => {
            // the same for declarations: px := uri, then prefix ln := "u3"
            let p = x.add_prefix(&o.px);
            let ns = x.add_namespace(&o.uri);
            let p2 = x.add_prefix(&o.ln);
            let ns2 = x.add_namespace("u3");
            let r = {
                let mut m = x.namespaces_mut(a[0]);
                m.insert(p, ns);
                m.insert(p2, ns2)
            };
            oks(r.map(|n| x.namespace_str(n).to_string()))
        }
        "attr_remove" => {
            let n = mkname(x);
            okv(x.attributes_mut(a[0]).remove(n))
        }
        "attr_clear" => {
            x.attributes_mut(a[0]).clear();
            ok()
        }
        "attr_get_mut" => {
            let n = mkname(x);
            let mut m = x.attributes_mut(a[0]);
            match m.get_mut(n) {
                Some(v) => {
                    let old = std::mem::replace(v, o.s.clone());
                    okv(Some(old))
                }
                None => okv(None),
            }
        }
        "attr_entry_or_insert" => {
            let n = mkname(x);
            let mut m = x.attributes_mut(a[0]);
            let v = m.entry(n).or_insert(o.s.clone()).clone();
            okv(Some(v))
        }
        "attr_entry_or_insert_with" => {
            let n = mkname(x);
            let mut m = x.attributes_mut(a[0]);
            let s = o.s.clone();
            let v = m.entry(n).or_insert_with(move || s).clone();
            okv(Some(v))
        }
        "attr_entry_or_default" => {
            let n = mkname(x);
            let mut m = x.attributes_mut(a[0]);
            let v = m.entry(n).or_default().clone();
            okv(Some(v))
        }
        "attr_entry_and_modify_or_insert" => {
            // and_modify(append "!") . or_insert(s)
            let n = mkname(x);
            let mut m = x.attributes_mut(a[0]);
            let v = m.entry(n).and_modify(|v| v.push('!')).or_insert(o.s.clone()).clone();
            okv(Some(v))
        }
        "attr_entry_occupied_insert" => {
            let n = mkname(x);
            let mut m = x.attributes_mut(a[0]);
            match m.entry(n) {
                xot::Entry::Occupied(mut e) => okv(Some(e.insert(o.s.clone()))),
                xot::Entry::Vacant(_) => okv(None),
            }
        }
        "attr_entry_occupied_remove" => {
            let n = mkname(x);
            let mut m = x.attributes_mut(a[0]);
            match m.entry(n) {
                xot::Entry::Occupied(e) => okv(Some(e.remove())),
                xot::Entry::Vacant(_) => okv(None),
            }
        }
        "attr_entry_vacant_insert" => {
            let n = mkname(x);
            let mut m = x.attributes_mut(a[0]);
            match m.entry(n) {
                xot::Entry::Occupied(_) => okv(None),
                xot::Entry::Vacant(e) => okv(Some(e.insert(o.s.clone()).clone())),
            }
        }
        // ---- namespace map
        "set_namespace" => {
            let p = x.add_prefix(&o.px);
            let ns = x.add_namespace(&o.uri);
            x.set_namespace(a[0], p, ns);
            ok()
        }
        "remove_namespace" => {
            let p = x.add_prefix(&o.px);
            x.remove_namespace(a[0], p);
            ok()
        }
        "ns_insert" => {
            let p = x.add_prefix(&o.px);
            let ns = x.add_namespace(&o.uri);
            let r = x.namespaces_mut(a[0]).insert(p, ns);
            oks(r.map(|n| x.namespace_str(n).to_string()))
        }
        "ns_remove" => {
            let p = x.add_prefix(&o.px);
            let r = x.namespaces_mut(a[0]).remove(p);
            oks(r.map(|n| x.namespace_str(n).to_string()))
        }
        "ns_clear" => {
            x.namespaces_mut(a[0]).clear();
            ok()
        }
        "ns_get_mut" => {
            let p = x.add_prefix(&o.px);
            let ns = x.add_namespace(&o.uri);
            let mut m = x.namespaces_mut(a[0]);
            let r = match m.get_mut(p) {
                Some(v) => Some(std::mem::replace(v, ns)),
                None => None,
            };
            oks(r.map(|n| x.namespace_str(n).to_string()))
        }
        "ns_entry_or_insert" => {
            let p = x.add_prefix(&o.px);
            let ns = x.add_namespace(&o.uri);
            let mut m = x.namespaces_mut(a[0]);
            let v = *m.entry(p).or_insert(ns);
            oks(Some(x.namespace_str(v).to_string()))
        }
        "ns_entry_occupied_remove" => {
            let p = x.add_prefix(&o.px);
            let mut m = x.namespaces_mut(a[0]);
            let r = match m.entry(p) {
                xot::Entry::Occupied(e) => Some(e.remove()),
                xot::Entry::Vacant(_) => None,
            };
            oks(r.map(|n| x.namespace_str(n).to_string()))
        }
        // ---- whole tree
        "riw" => {
            x.remove_insignificant_whitespace(a[0]);
            ok()
        }
        "riw2" => {
            // applying it a second time must change nothing (judged against the single application)
            x.remove_insignificant_whitespace(a[0]);
            if !x.is_removed(a[0]) {
                // (the node itself may have been insignificant white space)
                x.remove_insignificant_whitespace(a[0]);
            }
            ok()
        }
        "clone_store" => {
            // Xot::clone: an independent store in which every existing handle denotes an equal node.
            // With b the history continues on the clone (and the original becomes the observed twin).
            let c = w.xot.clone();
            if o.b {
                let old = std::mem::replace(&mut w.xot, c);
                w.twin = Some(Box::new(old));
            } else {
                w.twin = Some(Box::new(c));
            }
            ok()
        }
        "cmp" => unit(x.create_missing_prefixes(a[0])),
        "dedup" | "dedup2" => {
            // (for dedup2 the second application is made by step_obs, after the state in between has been projected)
            x.deduplicate_namespaces(a[0]);
            ok()
        }
        "set_cons" => {
            x.set_text_consolidation(o.b);
            w.cons = o.b;
            if !o.b {
                w.ever_off = true;
            }
            ok()
        }
        "parse" => match x.parse(&o.s) {
            Ok(n) => okn(n),
            Err(_) => err(),
        },
        "parse_fragment" => match x.parse_fragment(&o.s) {
            Ok(n) => okn(n),
            Err(_) => err(),
        },
        other => panic!("harness: unknown op {other}"),
    }
}

/// Execute one call under catch_unwind and produce the event (without ep/seq, which the caller adds).
/// serialisation observation of the tree that contains node id (C10 / C15 clauses about serialising before / after)
fn ser_obs(w: &World, id: usize, whole_tree: bool) -> J {
    let none = json!({"has": false, "res": "na", "re": "na", "root": 0, "retree": {"n": [], "cons": true, "eo": false, "rs": [], "bad": ""}, "reroot": 0, "text": []});
    if id == 0 || id > w.handles.len() || w.xot.is_removed(w.h(id)) {
        return none;
    }
    // create_missing_prefixes promises that the node it was called on serialises; deduplicate_namespaces that the
    // tree still does
    let root = if whole_tree { w.xot.root(w.h(id)) } else { w.h(id) };
    if !(w.xot.is_document(root) || w.xot.is_element(root)) {
        return none;
    }
    let rid = w.known(root).unwrap_or(0);
    let isdoc = w.xot.is_document(root);
    let wf = isdoc && w.xot.validate_well_formed_document(root).is_ok();
    let r = catch_unwind(AssertUnwindSafe(|| w.xot.to_string(root)));
    match r {
        Err(_) => json!({"has": true, "res": "panic", "re": "na", "root": rid, "retree": none["retree"], "reroot": 0, "text": []}),
        Ok(Err(_)) => json!({"has": true, "res": "err", "re": "na", "root": rid, "retree": none["retree"], "reroot": 0, "text": []}),
        Ok(Ok(s)) => {
            let (re, retree, reroot) = crate::ser::reparse(&s, isdoc && !wf);
            json!({"has": true, "res": "ok", "re": re, "root": rid, "retree": retree, "reroot": reroot, "text": cps(&s)})
        }
    }
}

/// every accessor of the read-only and of the mutable attribute / namespace view of element h (C11)
fn views_of(w: &mut World, id: usize, keys: &[(String, String)], pfx: &[String]) -> J {
    let h = w.h(id);
    let nkeys: Vec<xot::NameId> = keys.iter().map(|(ns, ln)| { let n = w.xot.add_namespace(ns); w.xot.add_name_ns(ln, n) }).collect();
    let pids: Vec<xot::PrefixId> = pfx.iter().map(|p| w.xot.add_prefix(p)).collect();
    let nm = |x: &xot::Xot, n: xot::NameId| { let (l, ns) = x.name_ns_str(n); json!([ns, l]) };
    let mut hm_a = |v: Vec<(xot::NameId, String)>, x: &xot::Xot| { let mut o: Vec<(String, String, Vec<u32>)> = v.into_iter().map(|(k, v)| { let (l, ns) = x.name_ns_str(k); (ns.to_string(), l.to_string(), cps(&v)) }).collect(); o.sort(); json!(o) };
    // read-only views
    let (aro, nro) = {
        let x = &w.xot;
        let a = x.attributes(h);
        let aro = json!({
            "len": a.len(), "empty": a.is_empty(),
            "keys": a.keys().map(|k| nm(x, k)).collect::<Vec<_>>(),
            "vals": a.values().map(|v| cps(v)).collect::<Vec<_>>(),
            "nodes": a.nodes().map(|n| w.known(n).unwrap_or(0)).collect::<Vec<_>>(),
            "iter": a.iter().map(|(k, v)| json!([nm(x, k), cps(v)])).collect::<Vec<_>>(),
            "vec": a.to_vec().into_iter().map(|(k, v)| json!([nm(x, k), cps(&v)])).collect::<Vec<_>>(),
            "hm": hm_a(a.to_hashmap().into_iter().collect(), x),
            "get": nkeys.iter().map(|k| json!([a.contains_key(*k), a.get(*k).is_some(), a.get(*k).map(|v| cps(v)).unwrap_or_default(), a.get_node(*k).and_then(|n| w.known(n)).unwrap_or(0)])).collect::<Vec<_>>(),
        });
        let n = x.namespaces(h);
        let pn = |p: xot::PrefixId| json!(["", x.prefix_str(p)]);
        let mut hm: Vec<(String, String)> = n.to_hashmap().into_iter().map(|(p, u)| (x.prefix_str(p).to_string(), x.namespace_str(u).to_string())).collect();
        hm.sort();
        let nro = json!({
            "len": n.len(), "empty": n.is_empty(),
            "keys": n.keys().map(pn).collect::<Vec<_>>(),
            "vals": n.values().map(|u| x.namespace_str(*u)).collect::<Vec<_>>(),
            "nodes": n.nodes().map(|m| w.known(m).unwrap_or(0)).collect::<Vec<_>>(),
            "iter": n.iter().map(|(p, u)| json!([pn(p), x.namespace_str(*u)])).collect::<Vec<_>>(),
            "vec": n.to_vec().into_iter().map(|(p, u)| json!([pn(p), x.namespace_str(u)])).collect::<Vec<_>>(),
            "hm": hm,
            "get": pids.iter().map(|p| json!([n.contains_key(*p), n.get(*p).is_some(), n.get(*p).map(|u| x.namespace_str(*u)).unwrap_or(""), n.get_node(*p).and_then(|m| w.known(m)).unwrap_or(0)])).collect::<Vec<_>>(),
        });
        (aro, nro)
    };
    // mutable views (same accessors through attributes_mut / namespaces_mut)
    let ids = w.ids.clone();
    let known = |n: xot::Node| ids.get(&n).copied().unwrap_or(0);
    let amu = {
        let a = w.xot.attributes_mut(h);
        let keys: Vec<xot::NameId> = a.keys().collect();
        let vals: Vec<Vec<u32>> = a.values().map(|v| cps(v)).collect();
        let nodes: Vec<usize> = a.nodes().map(known).collect();
        let iter: Vec<(xot::NameId, Vec<u32>)> = a.iter().map(|(k, v)| (k, cps(v))).collect();
        let vec: Vec<(xot::NameId, String)> = a.to_vec();
        let hmv: Vec<(xot::NameId, String)> = a.to_hashmap().into_iter().collect();
        let get: Vec<(bool, bool, Vec<u32>, usize)> = nkeys.iter().map(|k| (a.contains_key(*k), a.get(*k).is_some(), a.get(*k).map(|v| cps(v)).unwrap_or_default(), a.get_node(*k).map(known).unwrap_or(0))).collect();
        let (len, empty) = (a.len(), a.is_empty());
        let x = &w.xot;
        json!({"len": len, "empty": empty, "keys": keys.iter().map(|k| nm(x, *k)).collect::<Vec<_>>(), "vals": vals, "nodes": nodes,
               "iter": iter.iter().map(|(k, v)| json!([nm(x, *k), v])).collect::<Vec<_>>(),
               "vec": vec.iter().map(|(k, v)| json!([nm(x, *k), cps(v)])).collect::<Vec<_>>(),
               "hm": hm_a(hmv, x), "get": get.iter().map(|g| json!([g.0, g.1, g.2, g.3])).collect::<Vec<_>>()})
    };
    let nmu = {
        let n = w.xot.namespaces_mut(h);
        let keys: Vec<xot::PrefixId> = n.keys().collect();
        let vals: Vec<xot::NamespaceId> = n.values().copied().collect();
        let nodes: Vec<usize> = n.nodes().map(known).collect();
        let iter: Vec<(xot::PrefixId, xot::NamespaceId)> = n.iter().map(|(p, u)| (p, *u)).collect();
        let vec = n.to_vec();
        let hmv: Vec<(xot::PrefixId, xot::NamespaceId)> = n.to_hashmap().into_iter().collect();
        let get: Vec<(bool, bool, Option<xot::NamespaceId>, usize)> = pids.iter().map(|p| (n.contains_key(*p), n.get(*p).is_some(), n.get(*p).copied(), n.get_node(*p).map(known).unwrap_or(0))).collect();
        let (len, empty) = (n.len(), n.is_empty());
        let x = &w.xot;
        let pn = |p: xot::PrefixId| json!(["", x.prefix_str(p)]);
        let mut hm: Vec<(String, String)> = hmv.iter().map(|(p, u)| (x.prefix_str(*p).to_string(), x.namespace_str(*u).to_string())).collect();
        hm.sort();
        json!({"len": len, "empty": empty, "keys": keys.iter().map(|p| pn(*p)).collect::<Vec<_>>(),
               "vals": vals.iter().map(|u| x.namespace_str(*u)).collect::<Vec<_>>(), "nodes": nodes,
               "iter": iter.iter().map(|(p, u)| json!([pn(*p), x.namespace_str(*u)])).collect::<Vec<_>>(),
               "vec": vec.iter().map(|(p, u)| json!([pn(*p), x.namespace_str(*u)])).collect::<Vec<_>>(),
               "hm": hm, "get": get.iter().map(|g| json!([g.0, g.1, g.2.map(|u| x.namespace_str(u)).unwrap_or(""), g.3])).collect::<Vec<_>>()})
    };
    // what the serialiser writes for this element's start tag: declarations, then attributes, in map order
    let outs: Vec<J> = w.xot.outputs(h).take_while(|(n, _)| *n == h).filter_map(|(_, o)| match o {
        xot::output::Output::Prefix(p, u) => Some(json!(["pfx", "", w.xot.prefix_str(p), w.xot.namespace_str(u)])),
        xot::output::Output::Attribute(n, _) => { let (l, ns) = w.xot.name_ns_str(n); Some(json!(["attr", ns, l, ""])) }
        _ => None,
    }).collect();
    json!({"live": true, "aro": aro, "amu": amu, "nro": nro, "nmu": nmu, "outs": outs})
}

pub const VIEW_KEYS: [(&str, &str); 5] = [("", "a"), ("", "b"), ("u1", "a"), ("u1", "b"), (XML_NS, "space")];
pub const VIEW_PFX: [&str; 3] = ["", "p", "q"];

pub fn step(w: &mut World, o: &Op) -> J {
    step_obs(w, o, false)
}

pub fn step_obs(w: &mut World, o: &Op, views: bool) -> J {
    let spre = if o.op == "cmp" || o.op == "dedup" { ser_obs(w, o.a.first().copied().unwrap_or(0), o.op == "dedup") } else { ser_obs(w, 0, true) };
    let out = catch_unwind(AssertUnwindSafe(|| run(w, o)));
    let (mut res, retn, rv, has, rvs) = match out {
        Ok(oc) => (oc.res, oc.ret, oc.rv, oc.has, oc.rvs),
        Err(_) => ("panic", None, vec![], false, String::new()),
    };
    // dedup2: project the state after the first application, then apply again
    let mid = if o.op == "dedup2" && res == "ok" {
        let m = w.project(None);
        let h = w.h(o.a[0]);
        if catch_unwind(AssertUnwindSafe(|| w.xot.deduplicate_namespaces(h))).is_err() {
            res = "panic";
        }
        m
    } else {
        json!({"n": [], "cons": w.cons})
    };
    let post = match catch_unwind(AssertUnwindSafe(|| w.project(retn))) {
        Ok(p) => p,
        Err(_) => {
            w.corrupt = true;
            json!({"n": [], "cons": w.cons, "eo": w.ever_off, "rs": [], "bad": "projection-panicked"})
        }
    };
    let ret = retn.and_then(|n| w.known(n)).unwrap_or(0);
    let mut ev = o.to_json();
    let m = ev.as_object_mut().unwrap();
    m.insert("res".into(), json!(res));
    m.insert("ret".into(), json!(ret));
    m.insert("rv".into(), json!(rv));
    m.insert("has".into(), json!(has));
    m.insert("rvs".into(), json!(rvs));
    m.insert("post".into(), post);
    let spost = if (o.op == "cmp" || o.op == "dedup") && res == "ok" { ser_obs(w, o.a.first().copied().unwrap_or(0), o.op == "dedup") } else { ser_obs(w, 0, true) };
    m.insert("mid".into(), mid);
    m.insert("spre".into(), spre);
    m.insert("spost".into(), spost);
    let mut vs: Vec<J> = vec![];
    if views && res != "panic" && !w.corrupt {
        let keys: Vec<(String, String)> = VIEW_KEYS.iter().map(|(a, b)| (a.to_string(), b.to_string())).collect();
        let pfx: Vec<String> = VIEW_PFX.iter().map(|p| p.to_string()).collect();
        for id in 1..=w.handles.len() {
            let h = w.h(id);
            if !w.xot.is_removed(h) && w.xot.is_element(h) {
                let v = catch_unwind(AssertUnwindSafe(|| views_of(w, id, &keys, &pfx)));
                vs.push(v.unwrap_or(json!({"live": true, "panic": true})));
            } else {
                vs.push(json!({"live": false}));
            }
        }
    }
    m.insert("views".into(), J::Array(vs));
    ev
}

// ------------------------------------------------------------------------------------------------
// universes

pub const NSS: [&str; 3] = ["", "u1", "u2"];
pub const LNS: [&str; 3] = ["a", "b", "c"];
pub const PXS: [&str; 3] = ["", "p", "q"];

fn pk(r: &mut Rng, xs: &[&'static str]) -> &'static str {
    xs[r.below(xs.len())]
}

fn rand_text(r: &mut Rng, ws_heavy: bool) -> String {
    let alpha: &[char] = if ws_heavy { &[' ', '\t', '\n', 'x', '\u{a0}', '\r'] } else { &['x', 'y', ' ', '<', '&', 'é'] };
    let n = r.below(4);
    (0..n).map(|_| *r.pick(alpha)).collect()
}

fn rand_name(r: &mut Rng) -> (String, String) {
    if r.chance(1, 12) {
        return (XML_NS.to_string(), if r.chance(1, 2) { "space".into() } else { "id".into() });
    }
    (pk(r, &NSS).to_string(), pk(r, &LNS).to_string())
}

pub const NODE2_OPS: [&str; 8] = [
    "append", "prepend", "insert_before", "insert_after", "any_append", "append_attribute_node", "append_namespace_node",
    "replace",
];
pub const NODE1_OPS: [&str; 8] =
    ["detach", "remove", "element_unwrap", "clone_node", "clone_with_prefixes", "new_document_with_element", "riw", "dedup"];

/// Element-only accessors: documented to panic on a non-element.
pub const ELEMENT_ONLY: [&str; 23] = [
    "attr_session", "ns_session", "set_element_name", "set_attribute", "remove_attribute", "attr_insert", "attr_remove", "attr_clear", "attr_get_mut",
    "attr_entry_or_insert", "attr_entry_or_insert_with", "attr_entry_or_default", "attr_entry_and_modify_or_insert",
    "attr_entry_occupied_insert", "attr_entry_occupied_remove", "attr_entry_vacant_insert", "set_namespace", "remove_namespace",
    "ns_insert", "ns_remove", "ns_clear", "ns_get_mut", "ns_entry_or_insert",
];

pub fn random_op(w: &World, r: &mut Rng, profile: &str) -> Op {
    let live = w.live_ids();
    let pick_node = |r: &mut Rng| -> usize {
        if live.is_empty() {
            0
        } else {
            *r.pick(&live)
        }
    };
    let ws = profile == "ws";
    // choose a family
    let roll = r.below(100);
    let (ns, ln) = rand_name(r);
    if live.len() < 3 || roll < 14 {
        // creation
        return match r.below(9) {
            0 => Op::new("new_document", &[]),
            1 | 2 => Op::new("new_element", &[]).name(&ns, &ln),
            3 | 4 => Op::new("new_text", &[]).s(&rand_text(r, ws)),
            5 => Op::new("new_comment", &[]).s(&rand_text(r, false).replace('-', "x")),
            6 => Op::new("new_pi", &[]).name("", &ln).s(&rand_text(r, false)).b(r.chance(1, 2)),
            7 => Op::new("new_attribute_node", &[]).name(&ns, &ln).s(&rand_text(r, false)),
            _ => Op::new("new_namespace_node", &[]).pxuri(pk(r, &PXS), pk(r, &NSS)),
        };
    }
    let a0 = pick_node(r);
    let a1 = pick_node(r);
    let elems: Vec<usize> = live.iter().copied().filter(|i| w.xot.is_element(w.h(*i))).collect();
    if profile == "clone" && r.chance(1, 10) {
        // documents with an xml:id index, and clones of whole documents (what a clone's index hands out is part of C12)
        let docs: Vec<usize> = live.iter().copied().filter(|i| w.xot.is_document(w.h(*i))).collect();
        if !docs.is_empty() && r.chance(2, 3) {
            return Op::new(if r.chance(1, 2) { "clone_node" } else { "clone_with_prefixes" }, &[*r.pick(&docs)]);
        }
        return Op::new("parse", &[]).s(*r.pick(&["<a xml:id='i1'><b xml:id='i2'/>t</a>", "<a><b xml:id=' i3 '/><c xml:id='x  y'/></a>"]));
    }
    if profile == "xmlid" && r.chance(3, 5) {
        // parsed documents with an xml:id index; elements carrying an ID are removed, new nodes are created (the arena hands
        // the freed slots out again) and attached under the same documents: the index must never hand out what was removed
        let with_id: Vec<usize> = elems.iter().copied().filter(|i| w.xot.get_attribute(w.h(*i), w.xot.xml_id_name()).is_some()).collect();
        let loose: Vec<usize> = elems.iter().copied().filter(|i| w.xot.parent(w.h(*i)).is_none()).collect();
        let housed: Vec<usize> = elems.iter().copied().filter(|i| w.xot.parent(w.h(*i)).is_some()).collect();
        let roll2 = r.below(20);
        if roll2 < 3 || elems.is_empty() {
            return Op::new("parse", &[]).s(*r.pick(&["<a xml:id='i1'><b xml:id='i2'/>t</a>", "<a><b xml:id=' i3 '/><c xml:id='x  y'/></a>", "<a><b xml:id='i1'><c xml:id='i2'/></b><d/></a>"]));
        }
        if roll2 < 8 && !with_id.is_empty() {
            return Op::new(if r.chance(3, 4) { "remove" } else { "detach" }, &[*r.pick(&with_id)]);
        }
        if roll2 < 13 || loose.is_empty() || housed.is_empty() {
            return Op::new("new_element", &[]).name(&ns, &ln);
        }
        return Op::new(*r.pick(&["append", "prepend"]), &[*r.pick(&housed), *r.pick(&loose)]);
    }
    if profile == "ns" && !elems.is_empty() && r.chance(1, 2) {
        let e = *r.pick(&elems);
        let uris = ["u1", "u2", "u3", "u4"];
        return match r.below(12) {
            0 | 1 => Op::new("cmp", &[if r.chance(1, 2) { e } else { a0 }]),
            2 => Op::new("dedup", &[if r.chance(1, 2) { e } else { a0 }]),
            3 => Op::new("dedup2", &[if r.chance(1, 2) { e } else { a0 }]),
            4 => Op::new("set_element_name", &[e]).name(pk(r, &uris), pk(r, &LNS)),
            5 => Op::new("set_attribute", &[e]).name(pk(r, &uris), pk(r, &LNS)).s("v"),
            6 => Op::new("set_namespace", &[e]).pxuri(pk(r, &["", "p", "q", "n0", "n1"]), pk(r, &["", "u1", "u2", "u3"])),
            7 => Op::new("remove_namespace", &[e]).pxuri(pk(r, &["", "p", "q", "n0"]), ""),
            8 => Op::new("append_element", &[e]).name(pk(r, &uris), pk(r, &LNS)),
            9 => Op::new("clone_node", &[e]),
            10 => Op::new("clone_with_prefixes", &[e]),
            _ => Op::new("append", &[e, a1]),
        };
    }
    if profile == "maps" && !elems.is_empty() && r.chance(3, 5) {
        // fall into the map family below
        let e = *r.pick(&elems);
        let val = rand_text(r, false);
        let (ns, ln) = rand_name(r);
        let attrs: Vec<usize> = live.iter().copied().filter(|i| w.xot.is_attribute_node(w.h(*i)) || w.xot.is_namespace_node(w.h(*i))).collect();
        if r.chance(1, 8) {
            // a session on ONE mutable view: update (possibly) an existing key, then a key of another alphabet
            return if r.chance(2, 3) {
                Op::new("attr_session", &[e]).name(&ns, &ln).s(&val).pxuri(pk(r, &["zz", "zy", "a"]), "")
            } else {
                Op::new("ns_session", &[e]).name("", pk(r, &["zz", "zy", "p"])).pxuri(pk(r, &PXS), pk(r, &NSS))
            };
        }
        return match r.below(26) {
            0 => Op::new("set_attribute", &[e]).name(&ns, &ln).s(&val),
            1 => Op::new("remove_attribute", &[e]).name(&ns, &ln),
            2 => Op::new("attr_insert", &[e]).name(&ns, &ln).s(&val),
            3 => Op::new("attr_remove", &[e]).name(&ns, &ln),
            4 => Op::new("attr_clear", &[e]),
            5 => Op::new("attr_get_mut", &[e]).name(&ns, &ln).s(&val),
            6 => Op::new("attr_entry_or_insert", &[e]).name(&ns, &ln).s(&val),
            7 => Op::new("attr_entry_or_insert_with", &[e]).name(&ns, &ln).s(&val),
            8 => Op::new("attr_entry_or_default", &[e]).name(&ns, &ln),
            9 => Op::new("attr_entry_and_modify_or_insert", &[e]).name(&ns, &ln).s(&val),
            10 => Op::new("attr_entry_occupied_insert", &[e]).name(&ns, &ln).s(&val),
            11 => Op::new("attr_entry_occupied_remove", &[e]).name(&ns, &ln),
            12 => Op::new("attr_entry_vacant_insert", &[e]).name(&ns, &ln).s(&val),
            13 => Op::new("set_namespace", &[e]).pxuri(pk(r, &PXS), pk(r, &NSS)),
            14 => Op::new("remove_namespace", &[e]).pxuri(pk(r, &PXS), ""),
            15 => Op::new("ns_insert", &[e]).pxuri(pk(r, &PXS), pk(r, &NSS)),
            16 => Op::new("ns_remove", &[e]).pxuri(pk(r, &PXS), ""),
            17 => Op::new("ns_clear", &[e]),
            18 => Op::new("ns_get_mut", &[e]).pxuri(pk(r, &PXS), pk(r, &NSS)),
            19 => Op::new("ns_entry_or_insert", &[e]).pxuri(pk(r, &PXS), pk(r, &NSS)),
            20 => Op::new("ns_entry_occupied_remove", &[e]).pxuri(pk(r, &PXS), ""),
            21 => Op::new("new_attribute_node", &[]).name(&ns, &ln).s(&val),
            22 => Op::new("new_namespace_node", &[]).pxuri(pk(r, &PXS), pk(r, &NSS)),
            23 if !attrs.is_empty() => Op::new("any_append", &[e, *r.pick(&attrs)]),
            24 if !attrs.is_empty() => Op::new(*r.pick(&["detach", "remove"]), &[*r.pick(&attrs)]),
            _ if !attrs.is_empty() => Op::new(*r.pick(&["append_attribute_node", "append_namespace_node"]), &[e, *r.pick(&attrs)]),
            _ => Op::new("attr_insert", &[e]).name(&ns, &ln).s(&val),
        };
    }
    if roll < 50 {
        let op = *r.pick(&NODE2_OPS);
        return Op::new(op, &[a0, a1]);
    }
    if roll < 68 {
        let op = *r.pick(&NODE1_OPS);
        return Op::new(op, &[a0]);
    }
    if roll < 72 {
        return Op::new("element_wrap", &[a0]).name(&ns, &ln);
    }
    if roll < 80 {
        return match r.below(5) {
            0 => Op::new("append_text", &[a0]).s(&rand_text(r, ws)),
            1 => Op::new("append_element", &[a0]).name(&ns, &ln),
            2 => Op::new("append_comment", &[a0]).s("c"),
            3 => Op::new("append_pi", &[a0]).name("", &ln).s("d").b(r.chance(1, 2)),
            _ => Op::new("append_namespace", &[a0]).pxuri(pk(r, &PXS), pk(r, &NSS)),
        };
    }
    if roll < 86 {
        return match r.below(7) {
            0 => Op::new("text_set", &[a0]).s(&rand_text(r, ws)),
            1 => Op::new("comment_set", &[a0]).s(*r.pick(&["a--b", "k", "k", "t-", "-", "--", "a-b", ""])),
            2 => match r.below(3) {
                0 => Op::new("pi_set_target", &[a0]).name(&ns, &ln),
                1 => Op::new("element_mut_set_name", &[a0]).name(&ns, &ln),
                _ => Op::new("pi_set_data", &[a0]).s(if r.chance(1, 4) { "" } else { "z" }).b(r.chance(1, 2)),
            },
            3 => Op::new("attr_set_value", &[a0]).s(&rand_text(r, false)),
            4 => Op::new("nsnode_set_namespace", &[a0]).pxuri("", pk(r, &NSS)),
            5 => Op::new("text_content_set", &[a0]).s(&rand_text(r, ws)),
            _ => Op::new("set_element_name", &[a0]).name(&ns, &ln),
        };
    }
    if roll < 96 {
        // map ops: bias towards elements
        let elems: Vec<usize> = live.iter().copied().filter(|i| w.xot.is_element(w.h(*i))).collect();
        let e = if !elems.is_empty() && r.chance(9, 10) { *r.pick(&elems) } else { a0 };
        let val = rand_text(r, false);
        return match r.below(21) {
            0 => Op::new("set_attribute", &[e]).name(&ns, &ln).s(&val),
            1 => Op::new("remove_attribute", &[e]).name(&ns, &ln),
            2 => Op::new("attr_insert", &[e]).name(&ns, &ln).s(&val),
            3 => Op::new("attr_remove", &[e]).name(&ns, &ln),
            4 => Op::new("attr_clear", &[e]),
            5 => Op::new("attr_get_mut", &[e]).name(&ns, &ln).s(&val),
            6 => Op::new("attr_entry_or_insert", &[e]).name(&ns, &ln).s(&val),
            7 => Op::new("attr_entry_or_insert_with", &[e]).name(&ns, &ln).s(&val),
            8 => Op::new("attr_entry_or_default", &[e]).name(&ns, &ln),
            9 => Op::new("attr_entry_and_modify_or_insert", &[e]).name(&ns, &ln).s(&val),
            10 => Op::new("attr_entry_occupied_insert", &[e]).name(&ns, &ln).s(&val),
            11 => Op::new("attr_entry_occupied_remove", &[e]).name(&ns, &ln),
            12 => Op::new("attr_entry_vacant_insert", &[e]).name(&ns, &ln).s(&val),
            13 => Op::new("set_namespace", &[e]).pxuri(pk(r, &PXS), pk(r, &NSS)),
            14 => Op::new("remove_namespace", &[e]).pxuri(pk(r, &PXS), ""),
            15 => Op::new("ns_insert", &[e]).pxuri(pk(r, &PXS), pk(r, &NSS)),
            16 => Op::new("ns_remove", &[e]).pxuri(pk(r, &PXS), ""),
            17 => Op::new("ns_clear", &[e]),
            18 => Op::new("ns_get_mut", &[e]).pxuri(pk(r, &PXS), pk(r, &NSS)),
            19 => Op::new("ns_entry_or_insert", &[e]).pxuri(pk(r, &PXS), pk(r, &NSS)),
            _ => Op::new("ns_entry_occupied_remove", &[e]).pxuri(pk(r, &PXS), ""),
        };
    }
    if roll < 98 {
        return match (profile, r.below(6)) {
            ("clone", 0) | ("clone", 1) => Op::new("clone_store", &[]).b(false),
            ("clone", 2) | ("clone", 3) => Op::new("clone_store", &[]).b(true),
            ("ws", 0) | ("ws", 1) | ("ws", 2) => Op::new("riw2", &[a0]),
            (_, 5) => Op::new("dedup", &[a0]),
            _ => Op::new("cmp", &[a0]),
        };
    }
    if profile == "nocons" || r.chance(1, 3) {
        return Op::new("set_cons", &[]).b(r.chance(1, 2));
    }
    let docs = [
        "<a/>",
        "<a>x<b/>y</a>",
        "<a xmlns='u1' xmlns:p='u2' p:b='1'><p:c/> <b xml:space='preserve'> </b></a>",
        "<a xml:id='i1'><b xml:id='i2'/>t</a>",
        "<!--c--><a b='1' c='2'>x<?pi d?></a><?q?>",
        // not well-formed: must be refused (accepting them would put duplicate keys into the forest)
        "<r xmlns:a='u1' xmlns:b='u1'><e a:x='1' b:x='2'/></r>",
        "<r xmlns:a='u1' xmlns:a='u2'/>",
        "<r a='1' a='2'/>",
    ];
    if r.chance(1, 4) {
        Op::new("parse_fragment", &[]).s("x<a/>y<b>z</b>")
    } else {
        Op::new("parse", &[]).s(pk(r, &docs))
    }
}

/// All operation instances over all argument tuples of live nodes (for bounded-exhaustive replay).
/// `full` adds the larger value-setter / map families.
pub fn all_ops(w: &World, full: bool) -> Vec<Op> {
    let live = w.live_ids();
    let mut v = vec![];
    for &x in &live {
        for &y in &live {
            for op in NODE2_OPS {
                v.push(Op::new(op, &[x, y]));
            }
        }
        for op in NODE1_OPS {
            v.push(Op::new(op, &[x]));
        }
        v.push(Op::new("cmp", &[x]));
        v.push(Op::new("element_wrap", &[x]).name("", "b"));
        v.push(Op::new("append_text", &[x]).s("y"));
        v.push(Op::new("append_element", &[x]).name("", "b"));
        v.push(Op::new("append_comment", &[x]).s("k"));
        v.push(Op::new("text_set", &[x]).s(" "));
        v.push(Op::new("text_content_set", &[x]).s("y"));
        v.push(Op::new("attr_set_value", &[x]).s("y"));
        v.push(Op::new("set_attribute", &[x]).name("", "a").s("y"));
        v.push(Op::new("set_attribute", &[x]).name("", "b").s("y"));
        v.push(Op::new("remove_attribute", &[x]).name("", "a"));
        v.push(Op::new("set_namespace", &[x]).pxuri("p", "u1"));
        v.push(Op::new("set_namespace", &[x]).pxuri("", "u2"));
        v.push(Op::new("remove_namespace", &[x]).pxuri("p", ""));
        if full {
            v.push(Op::new("append_pi", &[x]).name("", "a").s("d").b(true));
            v.push(Op::new("append_namespace", &[x]).pxuri("p", "u2"));
            v.push(Op::new("attr_session", &[x]).name("", "a").pxuri("zz", "").s("y"));
            v.push(Op::new("ns_session", &[x]).name("", "zz").pxuri("p", "u2"));
            v.push(Op::new("comment_set", &[x]).s("a--b"));
            v.push(Op::new("comment_set", &[x]).s("k"));
            v.push(Op::new("comment_set", &[x]).s("t-"));
            v.push(Op::new("pi_set_data", &[x]).s("z").b(true));
            v.push(Op::new("pi_set_target", &[x]).name("", "c"));
            v.push(Op::new("element_mut_set_name", &[x]).name("u1", "c"));
            v.push(Op::new("nsnode_set_namespace", &[x]).pxuri("", "u2"));
            v.push(Op::new("set_element_name", &[x]).name("u1", "b"));
            for op in [
                "attr_insert", "attr_remove", "attr_get_mut", "attr_entry_or_insert", "attr_entry_or_insert_with", "attr_entry_or_default",
                "attr_entry_and_modify_or_insert", "attr_entry_occupied_insert", "attr_entry_occupied_remove", "attr_entry_vacant_insert",
            ] {
                v.push(Op::new(op, &[x]).name("", "a").s("v"));
                v.push(Op::new(op, &[x]).name("u1", "b").s("v"));
            }
            v.push(Op::new("attr_clear", &[x]));
            v.push(Op::new("ns_clear", &[x]));
            for op in ["ns_insert", "ns_remove", "ns_get_mut", "ns_entry_or_insert", "ns_entry_occupied_remove"] {
                v.push(Op::new(op, &[x]).pxuri("p", "u2"));
                v.push(Op::new(op, &[x]).pxuri("", "u1"));
            }
        }
    }
    v.push(Op::new("new_text", &[]).s("y"));
    v.push(Op::new("new_element", &[]).name("", "b"));
    v.push(Op::new("set_cons", &[]).b(!w.cons));
    v
}

/// The construction World::build performs, as an episode of ordinary forest events (appended to the file named by
/// XV_BUILDFAIL).  Used when the rebuilt state does not read back as intended.
pub fn log_build_episode(st: &J) {
    let path = match std::env::var("XV_BUILDFAIL") {
        Ok(p) => p,
        Err(_) => return,
    };
    use std::io::Write;
    let mut f = match std::fs::OpenOptions::new().create(true).append(true).open(&path) {
        Ok(f) => f,
        Err(_) => return,
    };
    let mut w = World::new();
    let reset = {
        let post = w.project(None);
        let mut ev = Op::new("reset", &[]).to_json();
        let m = ev.as_object_mut().unwrap();
        for (k, v) in [("res", json!("ok")), ("ret", json!(0)), ("rv", json!([])), ("has", json!(false)), ("rvs", json!("")), ("back", json!(0)),
                       ("views", json!([])), ("mid", json!({"n": [], "cons": true}))] {
            m.insert(k.into(), v);
        }
        let none = json!({"has": false, "res": "na", "re": "na", "root": 0, "retree": {"n": [], "cons": true, "eo": false, "rs": [], "bad": ""}, "reroot": 0, "text": []});
        m.insert("spre".into(), none.clone());
        m.insert("spost".into(), none);
        m.insert("post".into(), post);
        ev
    };
    let _ = writeln!(f, "{}", reset);
    let mut ops: Vec<Op> = vec![Op::new("set_cons", &[]).b(false)];
    let nodes = st["n"].as_array().cloned().unwrap_or_default();
    for nd in &nodes {
        let s = |k: &str| nd[k].as_str().unwrap_or("").to_string();
        let t = from_cps(&nd["t"]);
        ops.push(match nd["k"].as_str().unwrap_or("") {
            "doc" => Op::new("new_document", &[]),
            "elem" => Op::new("new_element", &[]).name(&s("ns"), &s("ln")),
            "text" => Op::new("new_text", &[]).s(&t),
            "comm" => Op::new("new_comment", &[]).s(&t),
            "pi" => Op::new("new_pi", &[]).name(&s("ns"), &s("ln")).s(&t).b(nd["d"].as_bool().unwrap_or(false)),
            "attr" => Op::new("new_attribute_node", &[]).name(&s("ns"), &s("ln")).s(&t),
            "nsn" => Op::new("new_namespace_node", &[]).pxuri(&s("ln"), &s("u")),
            _ => Op::new("new_text", &[]).s("removed"),
        });
    }
    for (i, nd) in nodes.iter().enumerate() {
        for c in nd["c"].as_array().cloned().unwrap_or_default() {
            ops.push(Op::new("any_append", &[i + 1, c.as_u64().unwrap_or(0) as usize]));
        }
    }
    for (i, nd) in nodes.iter().enumerate() {
        if nd["k"].as_str() == Some("rm") {
            ops.push(Op::new("remove", &[i + 1]));
        }
    }
    ops.push(Op::new("set_cons", &[]).b(st["cons"].as_bool().unwrap_or(true)));
    for o in ops {
        if o.a.iter().any(|i| *i == 0 || *i > w.handles.len()) {
            break;
        }
        let mut ev = step(&mut w, &o);
        ev.as_object_mut().unwrap().insert("back".into(), json!(1));
        let bad = ev["res"] == "panic" || w.corrupt;
        let _ = writeln!(f, "{}", ev);
        if bad {
            break;
        }
    }
}
