------------------------------- MODULE MCArena -------------------------------
(***************************************************************************)
(* L2: how node handles stay meaningful across slot reuse (C04: "a node    *)
(* handle denotes the same node ... until that very node is removed, after *)
(* which is_removed stays true for ever").  xot's arena is indextree 4.7:  *)
(* a slot carries a stamp (i16); a handle is (slot, stamp at allocation);  *)
(* removing turns the stamp negative, reusing the slot turns it positive   *)
(* and larger; is_removed(handle) compares the two stamps; freed slots are *)
(* reused first-in first-out.                                              *)
(*                                                                         *)
(* With Saturate = "library" the rule of indextree's NodeStamp::as_removed *)
(* is transcribed as written: at the largest stamp the removed stamp is    *)
(* -stamp (not -stamp-1), which is still reusable and comes back as the    *)
(* SAME stamp - TLC reports HandlesStayDead violated after MaxStamp + 1    *)
(* reuses of one slot (for the real i16 that is 32 768 allocate / remove   *)
(* cycles: the open finding K-C04-stamp-wrap-around, reproduced against    *)
(* the crate by the "churn" episode of the C04 check).  With Saturate =    *)
(* "retire" (-stamp-1 throughout: the slot is never reused again) the      *)
(* invariants hold.                                                        *)
(***************************************************************************)
EXTENDS Integers, Sequences, FiniteSets
CONSTANTS MaxStamp, MaxSlots, MaxAllocs, Saturate

MinStamp == 0 - MaxStamp - 1
VARIABLES slots,      \* sequence of stamps, one per slot
          free,       \* queue of reusable slots
          handles,    \* every handle ever handed out: [slot, stamp, dead] (dead: the node it named has been removed)
          allocs
vars == <<slots, free, handles, allocs>>

AsRemoved(s) == IF s < MaxStamp \/ Saturate = "retire" THEN 0 - s - 1 ELSE 0 - s
Reusable(s) == s > MinStamp
IsRemoved(h) == slots[h.slot] # h.stamp

Init == slots = <<>> /\ free = <<>> /\ handles = {} /\ allocs = 0

Alloc ==
    /\ allocs < MaxAllocs
    /\ allocs' = allocs + 1
    /\ IF free # <<>>
       THEN LET i == Head(free)  s == 0 - slots[i] IN
            /\ slots' = [slots EXCEPT ![i] = s]
            /\ free' = Tail(free)
            /\ handles' = handles \cup {[slot |-> i, stamp |-> s, dead |-> FALSE]}
       ELSE /\ Len(slots) < MaxSlots
            /\ slots' = Append(slots, 0)
            /\ free' = free
            /\ handles' = handles \cup {[slot |-> Len(slots) + 1, stamp |-> 0, dead |-> FALSE]}

Remove(h) ==
    /\ ~h.dead
    /\ LET s == AsRemoved(slots[h.slot]) IN
       /\ slots' = [slots EXCEPT ![h.slot] = s]
       /\ free' = IF Reusable(s) THEN Append(free, h.slot) ELSE free
    /\ handles' = (handles \ {h}) \cup {[h EXCEPT !.dead = TRUE]}
    /\ allocs' = allocs

Next == Alloc \/ \E h \in handles : Remove(h)
Spec == Init /\ [][Next]_vars

\* C04: a handle whose node was removed reads as removed for ever, a handle of a live node never does, and no two live
\* handles name the same slot
HandlesStayDead == \A h \in handles : h.dead => IsRemoved(h)
LiveHandlesLive == \A h \in handles : ~h.dead => ~IsRemoved(h)
NoAliasing == \A a, b \in handles : (~a.dead /\ ~b.dead /\ a # b) => a.slot # b.slot
=============================================================================
