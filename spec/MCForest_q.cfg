SPECIFICATION Spec
CONSTANTS
  MaxNode = 3
  Names <- Names1
  Texts <- TextsXS
  Pfxs = {"p"}
  Uris = {"u1"}
  MaxText = 2
  Dump = FALSE
INVARIANTS Valid RefusalsAreStutters Total RiwIdempotent FrameHolds L2MovesRefine L2CloneRefines
PROPERTY StableIds
CONSTRAINT TextBound
CHECK_DEADLOCK FALSE
