SPECIFICATION Spec
CONSTANTS
  MaxNode = 4
  Names <- Names1
  Texts <- TextsX
  Pfxs = {"p"}
  Uris = {"u1"}
  MaxText = 2
  Dump = FALSE
INVARIANTS Valid LawsHold FollowingPrecedingConverse TraverseConsistent AllVariantsExtendPlain LevelOrderIsPermutation StringValueCompositional EqualityLaws L2AxesRefine L2EqRefines
CONSTRAINT TextBound
CHECK_DEADLOCK FALSE
