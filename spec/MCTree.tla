------------------------------- MODULE MCTree -------------------------------
(***************************************************************************)
(* The XPath document-order laws (C07) and cross-definition checks of the  *)
(* traversal operators of XotTree, checked by TLC on every forest the L1   *)
(* machine can reach within the constants of MCForest (documents,          *)
(* fragments, unattached subtrees; elements with namespace and attribute   *)
(* nodes; text, comment leaves).                                           *)
(***************************************************************************)
EXTENDS MCForest, XotSerial, XotTreeL2

\* the iterator transcriptions of XotTreeL2 agree with the document-order definitions on every node
L2AxesRefine == \A x \in Live(F.n) : L2AxesRefineAt(F.n, x)
\* the equality family as written in src/valueaccess.rs agrees with the canonical-form definitions on every pair
L2EqRefines == \A x, y \in Live(F.n) : L2EqRefinesAt(F.n, x, y)
LawsHold == \A x \in Live(F.n) : LawsAt(F.n, x)

\* following and preceding are converse on ordinary nodes
FollowingPrecedingConverse ==
    \A x, y \in {z \in Live(F.n) : IsNormal(F.n, z)} :
        Has(Following(F.n, x), y) <=> Has(Preceding(F.n, y), x)

\* the Start edges of a traversal are the descendants; NodeEdge::next walks the traversal
EdgeOf(N, e) == IF e > 0 THEN EdgeNextStart(N, e) ELSE EdgeNextEnd(N, 0 - e)
EdgePrevOf(N, e) == IF e > 0 THEN EdgePrevStart(N, e) ELSE EdgePrevEnd(N, 0 - e)
TraverseConsistent ==
    \A x \in {z \in Live(F.n) : IsNormal(F.n, z) /\ F.n[z].p = 0} :
        LET t == Traverse(F.n, x) IN
        /\ SelectSeq(t, LAMBDA e : e > 0) = Descendants(F.n, x)
        /\ \A j \in 1..(Len(t) - 1) : EdgeOf(F.n, t[j]) = t[j + 1] /\ EdgePrevOf(F.n, t[j + 1]) = t[j]
        /\ EdgeOf(F.n, t[Len(t)]) = 0 /\ EdgePrevOf(F.n, t[1]) = 0

\* all_* variants = plain variants interleaved with namespace / attribute nodes in the fixed order
AllVariantsExtendPlain ==
    \A x \in Live(F.n) :
        /\ SelectSeq(AllDescendants(F.n, x), LAMBDA z : IsNormal(F.n, z)) = Descendants(F.n, x)
        /\ SelectSeq(AllFollowing(F.n, x), LAMBDA z : IsNormal(F.n, z)) = Following(F.n, x)
        /\ SelectSeq(AllReversePreorder(F.n, x), LAMBDA z : IsNormal(F.n, z)) = ReversePreorder(F.n, x)
        /\ \A a \in {1, 2, 3, 4, 7, 8, 11} : \A j \in 1..Len(AxisSeq(F.n, x)[a]) : IsNormal(F.n, AxisSeq(F.n, x)[a][j])

\* level order visits every ordinary descendant exactly once
LevelOrderIsPermutation ==
    \A x \in {z \in Live(F.n) : IsNormal(F.n, z)} :
        LET lo == SelectSeq(LevelOrder(F.n, x), LAMBDA z : z # 0) IN
        SeqRange(lo) = SeqRange(Descendants(F.n, x)) /\ Len(lo) = Len(Descendants(F.n, x))

\* string value of an element is the concatenation of its children's string values (text/element children)
StringValueCompositional ==
    \A x \in {z \in Live(F.n) : F.n[z].k \in {"doc", "elem"}} :
        StringValue(F.n, x) =
            FlattenSeq([j \in 1..Len(NormKids(F.n, x)) |->
                LET c == NormKids(F.n, x)[j] IN IF F.n[c].k \in {"elem", "text"} THEN StringValue(F.n, c) ELSE <<>>])

\* equality laws on the canonical form (C13): deep_equal is an equivalence that ignores declarations and attribute order
EqualityLaws ==
    \A x, y \in Live(F.n) :
        /\ DeepEqual(F.n, x, x)
        /\ DeepEqual(F.n, x, y) = DeepEqual(F.n, y, x)
        /\ DeepEqual(F.n, x, y) => AdvancedDeepEqual(F.n, x, y, "nocomment", "exact") /\ DeepEqualXPath(F.n, x, y, "exact")
        /\ DeepEqual(F.n, x, y) => (ShallowEqualIgnoring(F.n, x, y, {}) /\ (StringValue(F.n, x) = StringValue(F.n, y) \/ F.n[x].k = "nsn"))

\* output events (C16): one start event per node in document order; elements bracket their content
EventLaws ==
    \A x \in {z \in Live(F.n) : IsNormal(F.n, z)} :
        LET ev == Events(F.n, x)
            starts == SelectSeq(ev, LAMBDA q : q.k \in {"sto", "text", "comm", "pi"})
        IN /\ [j \in 1..Len(starts) |-> starts[j].n] = SelectSeq(Descendants(F.n, x), LAMBDA z : F.n[z].k # "doc")
           /\ \A z \in {y \in SeqRange(Descendants(F.n, x)) : F.n[y].k = "elem"} :
                 LET mine == SelectSeq(ev, LAMBDA q : q.n = z) IN
                 /\ mine[1].k = "sto" /\ mine[Len(mine)].k = "et"
                 /\ Len(SelectSeq(mine, LAMBDA q : q.k = "pfx")) = Len(NsKids(F.n, z))
                 /\ Len(SelectSeq(mine, LAMBDA q : q.k = "attr")) = Len(AttrKids(F.n, z))
=============================================================================
