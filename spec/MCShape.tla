------------------------------ MODULE MCShape ------------------------------
(***************************************************************************)
(* Every ordered tree shape with up to MaxN element nodes (197 shapes for  *)
(* MaxN = 7), plain or with namespace / attribute nodes hung on the last   *)
(* or the second node.  MCForest / MCTree reach only forests of 4 ids;     *)
(* the laws that need depth - climbing several levels to find the next     *)
(* node in document order, the rightmost deepest descendant of a previous  *)
(* sibling, preceding across several ancestors - are checked here, on the  *)
(* L1 definitions (XotTree) and on the iterator transcriptions             *)
(* (XotTreeL2).  The shapes are also printed for the conformance harness.  *)
(***************************************************************************)
EXTENDS XotTreeL2, TLC, Json
CONSTANTS MaxN, Dump

RECURSIVE AncChain(_, _)
AncChain(v, k) == IF k = 0 THEN {} ELSE {k} \cup AncChain(v, v[k])
RECURSIVE Vecs(_)
\* parent vectors of the ordered trees with k nodes numbered in document order
Vecs(k) == IF k = 1 THEN {<<0>>} ELSE UNION {{Append(v, q) : q \in AncChain(v, k - 1)} : v \in Vecs(k - 1)}

El(p, c) == [k |-> "elem", p |-> p, c |-> c, ns |-> "", ln |-> "a", t |-> <<>>, u |-> "", d |-> FALSE]
TreeOf(v) == [i \in 1..Len(v) |-> El(v[i], SelectSeq([j \in 1..Len(v) |-> j], LAMBDA j : v[j] = i))]
Deco(N, e) ==
    LET n == Len(N)
        nsn == [k |-> "nsn", p |-> e, c |-> <<>>, ns |-> "", ln |-> "p", t |-> <<>>, u |-> "u1", d |-> FALSE]
        at == [k |-> "attr", p |-> e, c |-> <<>>, ns |-> "", ln |-> "b", t |-> <<118>>, u |-> "", d |-> FALSE]
    IN [Append(Append(N, nsn), at) EXCEPT ![e].c = <<n + 1, n + 2>> \o @]

VARIABLE F
Init == \E n \in 1..MaxN : \E v \in Vecs(n) : \E deco \in {0, 1, 2} :
            /\ deco = 2 => n >= 2
            /\ F = [n |-> IF deco = 0 THEN TreeOf(v) ELSE IF deco = 1 THEN Deco(TreeOf(v), n) ELSE Deco(TreeOf(v), 2),
                    cons |-> TRUE, eo |-> FALSE]
Next == UNCHANGED F
Spec == Init /\ [][Next]_F

ValidShape == StructValidCore(F.n)
L2AxesRefine == \A x \in Live(F.n) : L2AxesRefineAt(F.n, x)
LawsHold == \A x \in Live(F.n) : LawsAt(F.n, x)
FollowingPrecedingConverse ==
    \A x, y \in {z \in Live(F.n) : IsNormal(F.n, z)} : Has(Following(F.n, x), y) <=> Has(Preceding(F.n, y), x)
EdgeOf(N, e) == IF e > 0 THEN EdgeNextStart(N, e) ELSE EdgeNextEnd(N, 0 - e)
EdgePrevOf(N, e) == IF e > 0 THEN EdgePrevStart(N, e) ELSE EdgePrevEnd(N, 0 - e)
TraverseConsistent ==
    LET t == Traverse(F.n, 1) IN
    /\ SelectSeq(t, LAMBDA e : e > 0) = Descendants(F.n, 1)
    /\ \A j \in 1..(Len(t) - 1) : EdgeOf(F.n, t[j]) = t[j + 1] /\ EdgePrevOf(F.n, t[j + 1]) = t[j]
    /\ EdgeOf(F.n, t[Len(t)]) = 0 /\ EdgePrevOf(F.n, t[1]) = 0
LevelOrderIsPermutation ==
    \A x \in {z \in Live(F.n) : IsNormal(F.n, z)} :
        LET lo == SelectSeq(LevelOrder(F.n, x), LAMBDA z : z # 0) IN
        SeqRange(lo) = SeqRange(Descendants(F.n, x)) /\ Len(lo) = Len(Descendants(F.n, x))
\* document order is a strict total order on the nodes of the tree, and the axes partition it (XPath 2.0, 3.2.1.1)
DocOrderTotal ==
    LET o == AllOrder(F.n, 1) IN
    /\ Len(o) = Len(F.n) /\ SeqRange(o) = 1..Len(F.n)
    /\ \A x \in {z \in Live(F.n) : IsNormal(F.n, z)} :
          LET parts == <<SeqRange(Tail(Ancestors(F.n, x))), SeqRange(Tail(Descendants(F.n, x))), SeqRange(Following(F.n, x)), SeqRange(Preceding(F.n, x)), {x}>> IN
          /\ UNION {parts[j] : j \in 1..5} = {z \in Live(F.n) : IsNormal(F.n, z)}
          /\ \A a, b \in 1..5 : a # b => parts[a] \cap parts[b] = {}
DumpState == Dump => PrintT("STATE " \o ToJson(F))
=============================================================================
