SPECIFICATION Spec
CONSTANT Dump = TRUE
INVARIANTS ValidLayout ScopeDefsAgree ResolutionIsFunction UsableIffSpellable DumpState L2Ser L2CmpInv RT
CHECK_DEADLOCK FALSE
