#!/usr/bin/env python3
"""Development aid: print the kill matrix of DESIGN.md section 12 from seeded/*/meta.json.
The 'first run' column comes from the table below (what happened the first time the property's quick check met the change,
before anything was strengthened for it); the 'now' column from meta.json (the last recorded run)."""
import json, os, re, sys

ROOT = os.path.dirname(os.path.dirname(os.path.abspath(__file__)))
# seeds the property's quick check did not report the first time, and what was changed in the machinery because of it
FIRST_MISSED = {
    "C01-A": "MCScope layouts added to the C01 / C14 round trips (xmlns=\"\" under a default declaration)",
    "C04-B": "damage catalogue: duplicate by expanded name on an element that inherits both prefixes",
    "C08-B": "interning strings with leading / trailing white space, case variants",
    "C12-B": "a state the builder cannot reconstruct is a judged construction episode, not a tool error",
    "C13-B": "near-duplicate mutations of PI target / PI data / comment text",
    "C14-A": "all bracket strings over ] > x < & CR up to length 4 (5 thorough) in every parameter combination",
    "C16-B": "suppress lists of several names in non-ascending NameId order",
    "C17-B": "invalid references late in long character data and inside attribute values",
    "C20-B": "up to three leading and trailing comments / PIs around the document element",
    "C08-C": "lookups of what an accepted parse registered implicitly (decoded namespace, names) must succeed; also caught by C02, the property it breaks most directly",
    "C08-D": "rejected parses that have already registered strings (unknown prefix, mismatched end tag ...) among the opaque calls; panics of the tables are logged as events",
    "C19-C": "HTML text / attribute values built from digraphs (&{ &# &amp &x; ]]> </) instead of single characters",
    "C19-D": "MCHtmlNs: 11 232 layouts of prefixed / generated declarations around void elements and later siblings",
    "C01-F": "PI targets that start with the reserved name (xml-stylesheet, xmlx, XmL1) in forests and rendered documents",
    "C02-E": "Latin-1 / windows-1252 documents whose high bytes happen to form well-formed UTF-8 (Ã© = C3 A9)",
    "C05-E": "explicitly created EMPTY text nodes: enumerated forests with one text node emptied, and 'sandwich' forests (text / non-text alternating, texts possibly empty) under every call",
    "C08-E": "interning texts with a prefix (or the default namespace) rebound on an inner element and used again behind it: both expanded names must be found afterwards; also reported by C02",
    "C01-H": "xml:id attributes in the random forests, with values whose edges or inside hold white space other than #x20 (TAB, CR, NBSP, U+3000): only #x20 is normalised away",
    "C02-G": "the same values in rendered documents (TAB / LF / CR written as references)",
    "C02-H": "fragments with several top-level elements (288 layouts): what the first one declares must not reach the later ones",
    "C03-H": "the XML namespace bound to another prefix or as default (accepted by the crate) enters the renderer's URI table; damage kind: the same ID once as xml:id and once under that other prefix (this also exposed a genuine defect, see 11.3)",
    "C08-G": "register an HTML element name (also upper-case, also in the namespace html5() takes for XHTML), call html5(), register again: same id",
    "C08-H": "processing-instruction targets inside a default-namespace scope must be found as plain names afterwards",
    "C09-G": "the change made unresolved_namespaces panic and the observer engine died with a tool error instead of reporting: every scope accessor now runs under catch_unwind and a panic shows as a value no scope can have",
    "C16-G": "element-only nesting 36 / 70 (130) levels deep with indentation on",
    "C17-G": "a byte order mark in front of the document (a token of its own in XotParse: skipped, but counted in every offset)",
    "C19-H": "new rule in XotHtml: a CDATA section only inside an element whose expanded name was asked for exactly; CDATA-section names that differ from an element of the tree only in letter case or between no namespace and XHTML",
    "C01-I": "attributes whose local name is xmlns, in a namespace (p:xmlns=\"v\" is an ordinary attribute)",
    "C01-J": "processing-instruction data that ends in white space (in forests and in rendered documents)",
    "C02-I": "U+0085 and U+2028 in character data and attribute values: ordinary characters in XML 1.0 (kept out of the single-byte encoding jobs)",
    "C02-J": "every fifth parse job runs with set_text_consolidation(false) called beforehand: the parser merges character data and CDATA all the same",
    "C03-J": "declarations with version 1.00, 1.01, 1.000, 01.0, 1.10, 2.0 besides 1.1",
    "C06-J": "elements in an undeclared namespace inside the text / non-text 'sandwich' forests, so that create_missing_prefixes on a fragment has something to do before it meets top-level text",
    "C07-J": "the change breaks how a state is built (first attribute behind the first of two namespace nodes); construction deviations were only counted when L1 charged them to the running check's own property - now a scenario that cannot be built is reported by every check (it is the same change as C11-C, C04-J, C05-I, which their checks reported at once)",
    "C08-I": "interning texts with a prefix / the default namespace bound A, then B, then A again on nested elements",
    "C10-I": "a prefix other than xml bound to the XML namespace is part of what the crate can express since 82bce36: Representable admits it, the random forests declare it now and then, XotNsL2!Emitted follows the new rule (the change is the exact reverse of that repair)",
    "C12-J": "Xot::clone: the xml:id index of the copy is compared with the source's, and a call that deviates from L1 only in an episode continued on the copy is charged to C12 (the consolidation switch is part of the store)",
    "C13-I": "near-duplicate mutations that only a text comparison bridges: PI data in another letter case / with a trailing space",
    "C14-J": "reported by C16 (the property it breaks: pretty tokens give the pretty string); the C14 check looks at strings only",
    "C16-I": "the Write-based entry point is driven through a sink that accepts 1 to 3 bytes per call",
    "C16-J": "enumerated forests with one text node emptied, every node as serialisation root: an empty text node has its event and token too",
    "C17-I": "attributes named like a prefix that the same start tag declares (p=\"v\" next to xmlns:p)",
    "C19-I": "element names that are raw text in a browser but ordinary escaped text for the serializer (xmp, iframe, noembed, noframes, plaintext, noscript)",
    "C20-I": "stepwise programs that build a text node in two pieces (the second is placed behind the first with insert_after, insert_before the next sibling, or append, and merges into it)",
    "C01-L": "comments and PI data containing CR and CR LF (kept verbatim by the parser, so they round-trip)",
    "C02-L": "namespace names with several spaces, and a 'mostly literal' spelling mode: a value written without references wherever possible, so that a lone literal CR / TAB is the only special thing in it (what a 'nothing to decode' shortcut sees)",
    "C03-L": "damage kind: the reserved PI target in another letter case (<?XML x?>, <?Xml?>, <?xmL version=\"1.0\"?>) wherever a PI may stand",
    "C04-K": "a drive profile around the xml:id index: parsed documents, elements with an ID removed, new nodes created (the freed slots are handed out again) and attached under the same document",
    "C07-L": "traversals are also observed on forests the crate has manipulated itself (one or two structure-changing calls, every kind equally often, instances with the richest argument nodes preferred, and short random histories); a forest that is no tree afterwards is reported by the running check",
    "C08-K": "the same key registered 70 000 times in each table (one id throughout), then the ordinary registrations",
    "C08-L": "strings with a colon (xml:id, xml:lang, p:a, xmlns:p, :a) registered as plain names; the registrations and lookups of src/xmlname (OwnedName::to_ref / to_create / maybe_to_ref, CreateName::*, CreateNamespace) as further routes into the same tables",
    "C10-L": "namespace names that need escaping inside a declaration (TAB, LF, CR, two spaces, <, quote and &) with an element or attribute living in them",
    "C13-K": "elements with 9 to 12 attributes against a copy with one more / one renamed (and wide elements in all random forests)",
    "C15-L": "new clause in L1 (and in the L2 refinement on 46 k layouts): names that could be written with the declarations of the subtree alone still can - redundancy is judged inside the subtree the call was made on",
    "C17-L": "new clause: where the spans are right, the value each node holds must be what its span decodes to",
    "C18-K": "MCWs layouts where the elements carrying xml:space also declare prefixes (namespace nodes stand in front of the attribute nodes)",
    "C19-L": "element names with U+212A KELVIN SIGN, whose Unicode lower case is ASCII k (HTML matches names ASCII-case-insensitively only); the xml prefix declared explicitly on inner elements",
    "C02-M": "the check itself broke: a REJECT line whose detail held a control character was not valid JSON and the check died with a Python traceback (exit 1 without a VIOLATION line); REJECT lines are now parsed leniently and any internal error of a check is a tool error (exit 2)",
    "C03-M": "damage kind: a raw '&' that is never closed, followed by a long run with multi-byte characters at every small offset",
    "C05-M": "L1 was too permissive: for replace it accepted either survivor of a merge (as it must for the insert family, where the crate keeps the existing node); replace now has its own rule - whatever becomes adjacent is merged into the earlier node - which is what the crate does and what the statement says; the quick sample of small forests is stratified towards forests with two or more text nodes",
    "C07-M": "more one-call jobs on small declaration- and attribute-rich forests; call instances are weighted so that calls on two different nodes with a movable second argument win over calls that must be refused",
    "C10-M": "reported by C19 only: the change is in the name serialiser shared by both output methods but shows through the HTML5 serialiser alone, which the C10 check does not drive; C19 gained a family for it (outer default namespace, prefixed SVG / MathML / XHTML element with a declaration of its own, elements of the outer namespace inside)",
    "C01-N": "U+0085, U+2028 and U+00A0 in the character data and attribute values of the serialiser checks' random forests (they were in the parser checks' documents only)",
    "C06-N": "comment texts that end in a hyphen (and other near-misses of the one refused pattern) among the value setters",
    "C08-N": "every third parse of the interning histories is preceded by an input that ends inside open elements carrying declarations (refused): nothing of it may reach the next parse",
    "C11-N": "two insertions through ONE mutable view (attr_session / ns_session: an existing key, then a new one) - the harness had made a fresh view for every call",
    "C13-N": "a comparison that is not an equivalence (no two strings are equal) also on pairs (a, a): new L1 operator AdvancedNever",
    "C17-N": "L1 had accepted two readings of where a text span ends when an empty CDATA section follows the last character (11.5 item 15); the crate is consistent - a part merged into an existing node extends its span, an empty section in front of the first character creates no node - and the judge now demands exactly that",
    "C19-N": "fragments with a top-level script / style / CDATA-section element followed by top-level character data with markup characters",
    "C12-F": "xml_id_node of a document created by the call must lie inside it (new clause under C12); clone profile parses xml:id documents and clones whole documents",
    "C14-E": "a non-ASCII character in the bracket strings (] > x < CR e-acute up to length 4 / 5)",
    "C17-F": "any white space between a PI's target and its data (two spaces, newline + indent, CR LF)",
    "C18-E": "MCWs restructured: doc / d / r[xml:space] / a[xml:space] / K with white space (and an element holding white space) behind r - 24 864 layouts",
    "C20-E": "attributes and declarations also built as nodes (new_attribute_node + append_attribute_node / any_append) in the stepwise programs",
    "C20-F": "75 'scope exit' documents (a binding made or shadowed on an inner element must be gone again behind it) in several spellings, for C20 and C02 / C03 / C17",
    "C20-O": "MCBuild!SetAbn and the random construction programs set declarations and attributes strictly in storage order (all declarations first): PrevAbn now means the previous one of the SAME kind, so an attribute may be set before a prefix is declared on the same element (TLC: Confluent still holds over all such orders)",
    "C10-O": "the identical change C10-C had been reported by exactly one random input and was no longer reported: deterministic family - a prefix spelled like a generated one (n0, n1) declared for another namespace 1 to 3 levels below the repaired node, a name in an undeclared namespace underneath (element / attribute)",
}


def main():
    rows = []
    for d in sorted(os.listdir(os.path.join(ROOT, "seeded"))):
        mp = os.path.join(ROOT, "seeded", d, "meta.json")
        if not os.path.exists(mp):
            continue
        m = json.load(open(mp))
        n = m.get("needs_to_manifest", "")
        t = n.split("##")[0].strip("# ").strip()
        t = re.sub(r"^(C\d\d[- ]?(seeded )?(mutant )?[AB]|Mutant [AB]|C\d\d-[AB])\s*[-:—(]+\s*", "", t, flags=re.I)
        p = open(os.path.join(ROOT, "seeded", d, "patch.diff")).read()
        files = sorted(set(re.findall(r"^\+\+\+ b/src/(\S+)", p, re.M)))
        first = "missed" if d in FIRST_MISSED else "caught"
        now = ", ".join(m["caught_by"]) or "MISSED"
        rows.append("| %s | `%s` | %s | %s | %s |" % (d, ", ".join(files), t[:150].replace("|", "/"), first, now))
    print("| seed | file | change | first run | reported now by |")
    print("|---|---|---|---|---|")
    print("\n".join(rows))
    print()
    for k, v in FIRST_MISSED.items():
        if os.path.isdir(os.path.join(ROOT, "seeded", k)):
            print(f"* **{k}** - {v}")


if __name__ == "__main__":
    main()
