#!/bin/sh
# Build the verification harness offline and syntax-check every TLA+ module.
set -e
cd "$(dirname "$0")"
export CARGO_NET_OFFLINE=true
(cd harness && cargo build --offline 2>&1 | tail -3)
python3 lib/sany_all.py
