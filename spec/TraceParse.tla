----------------------------- MODULE TraceParse -----------------------------
(***************************************************************************)
(* Conformance of the parser (engine C; properties C02, C03, C17).         *)
(* An event is one input - a rendering given as tokens (XotParse) or an    *)
(* arbitrary string / byte string without tokens - together with what      *)
(* every parse entry point of the real crate returned for it               *)
(* (harness/src/text.rs).  TLC computes what the tokens DENOTE and whether *)
(* they are well-formed, and compares: tree, xml:id index, spans, verdict. *)
(***************************************************************************)
EXTENDS XotParse, XotTree, XotKnown, TLC, Json, IOUtils

Rec == ndJsonDeserialize(IOEnv.TRACE)
OpenKnown == LET ks == JsonDeserialize(IOEnv.KNOWN) IN {ks[j] : j \in 1..Len(ks)}

VARIABLE i

Report(j, prop, entry, detail) ==
    LET kid == KnownParse(prop, Rec[j], entry, detail)
        shown == IF kid \in OpenKnown THEN kid ELSE ""
    IN PrintT("REJECT " \o ToJson([i |-> j, prop |-> prop, op |-> entry, a |-> <<>>, res |-> "", detail |-> detail, known |-> shown]))

SpanSet(s) == {[id |-> s[j].id, kind |-> s[j].kind, s |-> s[j].s, e |-> s[j].e] : j \in 1..Len(s)}
\* the same with every text span reaching over the empty CDATA sections directly behind the node's last characters
SpanSetAlt(s) == {[id |-> s[j].id, kind |-> s[j].kind, s |-> s[j].s, e |-> IF s[j].kind = "text" THEN s[j].e1 ELSE s[j].e] : j \in 1..Len(s)}

WrapToks(toks) ==
    LET T(k, parts, ln) == [k |-> k, parts |-> parts, px |-> "", ln |-> ln, empty |-> FALSE, attrs |-> <<>>, pieces |-> <<>>,
                            v |-> <<>>, hasdata |-> FALSE, ver |-> "", junk |-> ""]
        P(r, s) == [r |-> r, s |-> s]
    IN <<T("stag", <<P("lit", <<60>>), P("ename", <<119>>), P("lit", <<62>>)>>, "w")>> \o toks
       \o <<T("etag", <<P("lit", <<60, 47>>), P("ename", <<119>>), P("lit", <<62>>)>>, "w")>>

IdExpected(D, v) ==
    LET hits == {j \in 1..Len(D.ids) : D.ids[j].v = v} IN IF hits = {} THEN 0 ELSE D.ids[CHOOSE j \in hits : TRUE].node

\* first node (in id order) at which the real tree and the denoted one differ (both are numbered in document order)
TreeDiff(A, B) ==
    LET m == IF Len(A) < Len(B) THEN Len(A) ELSE Len(B)
        bad == {x \in 1..m : A[x] # B[x]}
    IN IF bad = {} THEN <<"sizes", Len(A), Len(B)>>
       ELSE LET x == CHOOSE y \in bad : \A z \in bad : y <= z IN <<"node", x, "real", A[x], "denoted", B[x]>>

HasSpans(r) == r.entry \in {"parse_with_span_info", "parse_fragment_with_span_info"}
IsStr(r) == r.entry \in {"parse", "parse_with_span_info", "parse_fragment", "parse_fragment_with_span_info"}

\* what is accepted must be a sound tree that serialises, is accepted again and reparses to the same document
SoundAccepted(j, r) ==
    LET N == r.tree.n IN
    /\ (StructDefect(N) # "none" \/ r.tree.bad # "") => Report(j, "C03", r.entry, <<"accepted tree is not structurally valid", StructDefect(N)>>)
    /\ (r.wfd \notin {"ok", "na"}) => Report(j, "C03", r.entry, <<"validate_well_formed_document", r.wfd>>)
    /\ r.ser # "ok" => Report(j, "C03", r.entry, <<"accepted tree does not serialise", r.ser>>)
    /\ (r.ser = "ok" /\ r.re # "ok") => Report(j, "C03", r.entry, <<"serialisation of accepted tree is rejected", r.re>>)
    /\ (r.ser = "ok" /\ r.re = "ok" /\ StructDefect(N) = "none" /\ ~SameDocument(N, r.root, r.retree.n, r.reroot))
          => Report(j, "C03", r.entry, <<"reparse differs">>)

SpanValueBad(r, D) ==
    {sp \in SpanSet(r.spans) : /\ sp.kind \in {"text", "av", "comm", "pic"}
                               /\ sp.id \in 1..Len(r.tree.n) /\ sp.id \in 1..Len(D.N)
                               /\ D.N[sp.id].k = r.tree.n[sp.id].k /\ r.tree.n[sp.id].t # D.N[sp.id].t}

JudgeRun(j, e, r, D) ==
    /\ r.res \notin {"ok", "err"} => Report(j, "C03", r.entry, <<"panic">>)
    /\ (r.res = "err" /\ IsStr(r) /\ ~(0 <= r.es /\ r.es <= r.ee /\ r.ee <= e.blen)) => Report(j, "C17", r.entry, <<"error span outside the source", r.es, r.ee, e.blen>>)
    /\ r.res = "ok" => SoundAccepted(j, r)
    /\ e.hastoks =>
         IF D.wf THEN
            /\ r.res # "ok" => Report(j, "C02", r.entry, <<"well-formed text rejected", r.res>>)
            /\ (r.res = "ok" /\ StructDefect(r.tree.n) = "none" /\ Shape(r.tree.n, r.root) # Shape(D.N, 1))
                  => Report(j, "C02", r.entry, <<"tree differs from the denoted document", TreeDiff(r.tree.n, D.N)>>)
            /\ (r.res = "ok" /\ \E q \in 1..Len(r.ids) : r.ids[q][2] # IdExpected(D, r.ids[q][1]))
                  => Report(j, "C02", r.entry, <<"xml_id_node", {r.ids[q] : q \in {x \in 1..Len(r.ids) : r.ids[x][2] # IdExpected(D, r.ids[x][1])}}>>)
            \* (a text span runs to the end of the last part merged into the node: an empty CDATA section directly behind the
            \* node's last character is such a part - SpanSetAlt; one in front of its first character created no node yet)
            /\ (r.res = "ok" /\ HasSpans(r) /\ SpanSet(r.spans) # SpanSetAlt(D.spans))
                  => Report(j, "C17", r.entry, <<"spans", SpanSet(r.spans) \ SpanSetAlt(D.spans), "expected", SpanSetAlt(D.spans) \ SpanSet(r.spans)>>)
            \* the spans are right, but the value the node holds is not what the slice decodes to (Denote computes every
            \* value from the pieces inside the item's span)
            /\ (r.res = "ok" /\ HasSpans(r) /\ SpanSet(r.spans) = SpanSetAlt(D.spans)
                  /\ StructDefect(r.tree.n) = "none" /\ SpanValueBad(r, D) # {})
                  => Report(j, "C17", r.entry, <<"the value of the node is not what its span decodes to", SpanValueBad(r, D)>>)
         ELSE r.res = "ok" => Report(j, "C03", r.entry, <<"ill-formed text accepted", D.why, e.dmg>>)

Judge(j) ==
    LET e == Rec[j]
        D == IF e.hastoks THEN Denote(e.toks, e.mode) ELSE Init0("doc")
        toolBad ==
            IF ~e.hastoks THEN ""
            ELSE IF TextOf(e.toks) # e.text THEN "TextOf(tokens) differs from the text"
            ELSE IF ~SpellingConsistent(e.toks) THEN "spelled parts differ from their pieces"
            ELSE IF D.why \in {"TOOL: uri outside the table", "TOOL: ws token inside content"} THEN D.why
            ELSE IF e.expectwf # "any" /\ (e.expectwf = "yes") # D.wf THEN "generator and specification disagree on well-formedness: " \o D.why
            ELSE IF e.mode = "frag" /\ D.wf /\ LET W == Denote(WrapToks(e.toks), "doc") IN
                        ~(W.wf /\ Shape(W.N, 2).kids = Shape(D.N, 1).kids) THEN "fragment / wrapped-document theorem fails"
            ELSE ""
    IN IF toolBad # "" THEN Report(j, "TOOL", "generator", <<toolBad>>)
       ELSE \A q \in 1..Len(e.runs) : JudgeRun(j, e, e.runs[q], D)

Init == i = 0
Next == i < Len(Rec) /\ i' = i + 1
Spec == Init /\ [][Next]_i
Judged == i = 0 \/ Judge(i)
Consumed == TLCGet("stats").diameter = Len(Rec) + 1 \/ PrintT(<<"NOTCONSUMED", TLCGet("stats").diameter, Len(Rec)>>)
=============================================================================
