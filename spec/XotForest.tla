------------------------------ MODULE XotForest ------------------------------
(***************************************************************************)
(* L1: the property-level specification of xot's mutating API as an        *)
(* ordered-forest state machine (DESIGN.md section 5 and appendix A).      *)
(*                                                                         *)
(* Every public mutator is described by  Allowed(e, N, cons) : the SET of  *)
(* outcomes [res, n, ret, rv, has] the call  e  may have in forest N -     *)
(* exactly one where the properties fix the result, several where the      *)
(* statements leave freedom (a request for the position already occupied   *)
(* may answer ok or err; either node may survive a merge with the next     *)
(* sibling; ...), and for a call outside its precondition exactly          *)
(* "err, nothing changed" (or the documented panic of the element-only     *)
(* accessors, nothing changed).                                            *)
(*                                                                         *)
(* The same operator is used by TLC in two ways: as the next-state         *)
(* relation of the model (MCForest.tla) and as the judge of events         *)
(* recorded from the real crate (TraceForest.tla).                         *)
(*                                                                         *)
(* An event e is a record with fields                                      *)
(*   op, a (node ids), ns, ln (a name), s (characters), px, uri, b         *)
(***************************************************************************)
EXTENDS XotBase

WS == {32, 9, 10, 13}
PreserveCps == <<112, 114, 101, 115, 101, 114, 118, 101>>

Out(res, n, ret) == [res |-> res, n |-> n, ret |-> ret, rv |-> <<>>, has |-> FALSE, rvs |-> ""]
OutV(n, rv, has) == [res |-> "ok", n |-> n, ret |-> 0, rv |-> rv, has |-> has, rvs |-> ""]
OutS(n, rvs, has) == [res |-> "ok", n |-> n, ret |-> 0, rv |-> <<>>, has |-> has, rvs |-> rvs]
Unch(N) == {Out("err", N, 0)}
NoneUnch(N) == {Out("none", N, 0)}
PanicUnch(N) == {Out("panic", N, 0)}
NoopReq(N) == {Out("ok", N, 0), Out("err", N, 0)}
OkSet(S) == {Out("ok", n, 0) : n \in S}
WithRet(S, r) == {[o EXCEPT !.ret = IF o.res = "ok" THEN r ELSE 0] : o \in S}

Fresh(N) == Len(N) + 1
NewNode(k, ns, ln, t, u, d) == [k |-> k, p |-> 0, c |-> <<>>, ns |-> ns, ln |-> ln, t |-> t, u |-> u, d |-> d]

-----------------------------------------------------------------------------
(* Moves: list step, then local merges (appendix A)                         *)

\* merge (a): the two old neighbours of x, if the list step made them adjacent and both are text
OldMerge(N, L, cons, x) ==
    LET a == PrevNorm(N, x)  b == NextNorm(N, x) IN
    IF cons /\ a # 0 /\ b # 0 /\ L[a].k = "text" /\ L[b].k = "text" /\ L[b].p # 0 /\ PrevNorm(L, b) = a
    THEN MergeInto(L, a, b) ELSE L

\* merge (b): x at its new place
NewMerge(M, cons, x) ==
    IF cons /\ M[x].k = "text" THEN
        LET a == PrevNorm(M, x)  b == NextNorm(M, x) IN
        IF IsText(M, a) THEN
            IF IsText(M, b)
            THEN {MergeInto(M, a, x), MergeInto(MergeInto(M, a, x), a, b)}   \* statement ambiguous: both accepted
            ELSE {MergeInto(M, a, x)}
        ELSE IF IsText(M, b) THEN {MergeInto(M, x, b), MergeIntoNext(M, x, b)}   \* either survivor
        ELSE {M}
    ELSE {M}

\* the same for replace, where the statement's wording is what the crate does: whatever becomes adjacent is merged into
\* the EARLIER node (the replacing text node survives a text node behind it; with text on both sides one node is left)
NewMergeEarlier(M, cons, x) ==
    IF cons /\ M[x].k = "text" THEN
        LET a == PrevNorm(M, x)  b == NextNorm(M, x) IN
        IF IsText(M, a) THEN
            IF IsText(M, b) THEN {MergeInto(MergeInto(M, a, x), a, b)} ELSE {MergeInto(M, a, x)}
        ELSE IF IsText(M, b) THEN {MergeInto(M, x, b)}
        ELSE {M}
    ELSE {M}

MovePre(N, q, x) ==
    /\ q # 0 /\ N[q].k \in {"elem", "doc"}
    /\ IsNormal(N, x) /\ N[x].k # "doc"
    /\ q \notin Subtree(N, x)

\* x becomes the k-th normal child of q (k counted after x has been taken out)
MoveOutcomes(N, cons, x, q, k) ==
    LET L == InsertNormalAt(DetachRaw(N, x), q, x, k) IN
    IF L = N THEN NoopReq(N)
    ELSE OkSet(NewMerge(OldMerge(N, L, cons, x), cons, x))

OpAppend(N, cons, q, x) ==
    IF ~MovePre(N, q, x) THEN Unch(N)
    ELSE MoveOutcomes(N, cons, x, q, Len(NormKids(DetachRaw(N, x), q)) + 1)

OpPrepend(N, cons, q, x) ==
    IF ~MovePre(N, q, x) THEN Unch(N) ELSE MoveOutcomes(N, cons, x, q, 1)

InsertRel(N, cons, r, x, after) ==
    LET q == N[r].p IN
    IF ~(IsNormal(N, r) /\ q # 0 /\ MovePre(N, q, x)) THEN Unch(N)
    ELSE IF r = x THEN NoopReq(N)
    ELSE LET s == NormKids(DetachRaw(N, x), q) IN
         MoveOutcomes(N, cons, x, q, IF after THEN Pos(s, r) + 1 ELSE Pos(s, r))

OpDetach(N, cons, x) == OkSet({OldMerge(N, DetachRaw(N, x), cons, x)})

OpRemove(N, cons, x) == OkSet({OldMerge(N, FreeSet(N, Subtree(N, x)), cons, x)})

OpReplace(N, cons, o, x) ==
    LET q == N[o].p IN
    IF x = o THEN NoopReq(N)       \* replacing a node by itself: nothing to do (ok or err, unchanged)
    ELSE IF ~(IsNormal(N, o) /\ N[o].k # "doc" /\ q # 0 /\ MovePre(N, q, x)) THEN Unch(N)
    ELSE LET D == DetachRaw(N, x)
             L0 == InsertNormalAt(D, q, x, Pos(NormKids(D, q), o))
             L == FreeSet(L0, Subtree(D, o))
             done == OkSet(NewMergeEarlier(OldMerge(N, L, cons, x), cons, x))
         IN IF x \in Subtree(N, o)
            THEN done \cup Unch(N)   \* replacement taken from inside the replaced subtree: refuse or extract
            ELSE done

\* merge b into a if both are text (and cons): the junctions of element_unwrap
Junction(M, cons, a, b) ==
    IF cons /\ IsText(M, a) /\ IsText(M, b) THEN MergeInto(M, a, b) ELSE M

ElementUnwrap(N, cons, e) ==
    IF N[e].k # "elem" THEN Unch(N)
    ELSE LET q == N[e].p
             kids == NormKids(N, e)
             n == Len(kids)
             a == PrevNorm(N, e)
             b == NextNorm(N, e)
             gone == {e} \cup SeqRange(AbnKids(N, e))
         IN IF q = 0 THEN
                \* parentless wrapper: children become roots; refusing is accepted when several would
                LET R == FreeSet([i \in 1..Len(N) |-> IF Has(kids, i) THEN [N[i] EXCEPT !.p = 0] ELSE N[i]], gone)
                IN IF n >= 2 THEN OkSet({R}) \cup Unch(N) ELSE OkSet({R})
            ELSE LET s == NormKids(N, q)
                     k == Pos(s, e)
                     newc == AbnKids(N, q) \o SubSeq(s, 1, k - 1) \o kids \o SubSeq(s, k + 1, Len(s))
                     L0 == [i \in 1..Len(N) |->
                              IF i = q THEN [N[i] EXCEPT !.c = newc]
                              ELSE IF Has(kids, i) THEN [N[i] EXCEPT !.p = q]
                              ELSE N[i]]
                     L == FreeSet(L0, gone)
                 IN IF n = 0 THEN OkSet({Junction(L, cons, a, b)})
                    ELSE LET M1 == Junction(L, cons, a, kids[1])
                             left == IF n = 1 /\ M1 # L THEN a ELSE kids[n]
                         IN OkSet({Junction(M1, cons, left, b)})

ElementWrap(N, x, ns, ln) ==
    LET w == Fresh(N)
        q == N[x].p
    IN IF ~(IsNormal(N, x) /\ N[x].k # "doc") THEN Unch(N)
       ELSE LET N1 == Append(N, NewNode("elem", ns, ln, <<>>, "", FALSE))
                R == IF q = 0
                     THEN [N1 EXCEPT ![w].c = <<x>>, ![x].p = w]
                     ELSE [N1 EXCEPT ![q].c = [j \in 1..Len(@) |-> IF @[j] = x THEN w ELSE @[j]],
                                     ![w].p = q, ![w].c = <<x>>, ![x].p = w]
            IN IF q # 0 /\ N[q].k = "doc" /\ N[x].k # "elem"
               THEN {Out("ok", R, w)} \cup Unch(N)    \* documented restriction; lifting it is not a violation
               ELSE {Out("ok", R, w)}

-----------------------------------------------------------------------------
(* Creation                                                                 *)

Create(N, nd) == {Out("ok", Append(N, nd), Fresh(N))}

\* a fresh node nd appended to q: when it is merged away no new id appears at all
AppendFresh(N, cons, q, nd) ==
    LET f == Fresh(N)
        N1 == Append(N, nd)
    IN IF ~(N[q].k \in {"elem", "doc"}) THEN Unch(N)
       ELSE LET last == LET s == NormKids(N, q) IN IF Len(s) = 0 THEN 0 ELSE s[Len(s)] IN
            IF cons /\ nd.k = "text" /\ IsText(N, last)
            THEN OkSet({[N EXCEPT ![last].t = @ \o nd.t]})
            ELSE OkSet({InsertNormalAt(N1, q, f, Len(NormKids(N, q)) + 1)})

NewDocumentWithElement(N, cons, e) ==
    IF N[e].k # "elem" THEN Unch(N)
    ELSE LET f == Fresh(N)
             N1 == Append(N, NewNode("doc", "", "", <<>>, "", FALSE))
             L == InsertNormalAt(DetachRaw(N1, e), f, e, 1)
         IN {Out("ok", OldMerge(N1, L, cons, e), f)}

-----------------------------------------------------------------------------
(* Attribute and namespace maps (the element's "attr" / "nsn" children in   *)
(* insertion order).  which = "attr": key = <<ns, ln>>, value = t.          *)
(*                    which = "nsn" : key = ln (prefix), value = u.         *)

MapKids(N, e, which) == IF which = "attr" THEN AttrKids(N, e) ELSE NsKids(N, e)
KeyOf(N, i) == IF N[i].k = "attr" THEN <<N[i].ns, N[i].ln>> ELSE <<"", N[i].ln>>
Lookup(N, e, which, key) ==
    LET s == MapKids(N, e, which)
        hits == {i \in SeqRange(s) : KeyOf(N, i) = key}
    IN IF hits = {} THEN 0 ELSE CHOOSE i \in hits : TRUE

\* position in e's raw child list where a new map node goes: after the last node of its map
InsertMapNode(N, e, which, x) ==
    LET nsk == NsKids(N, e)  atk == AttrKids(N, e)  nrm == NormKids(N, e)
        newc == IF which = "nsn" THEN nsk \o <<x>> \o atk \o nrm ELSE nsk \o atk \o <<x>> \o nrm
    IN [N EXCEPT ![e].c = newc, ![x].p = e]

SetVal(N, i, which, t, u) == IF which = "attr" THEN [N EXCEPT ![i].t = t] ELSE [N EXCEPT ![i].u = u]

\* returned value of map calls is compared as characters for attributes; for namespaces the harness logs the
\* URI as a string in rvs - see TraceForest.  Here: rv = <<>> and has tells whether a value was returned.
MapInsert(N, e, which, key, t, u) ==
    LET hit == Lookup(N, e, which, key) IN
    IF hit # 0 THEN [n |-> SetVal(N, hit, which, t, u), old |-> hit]
    ELSE LET f == Fresh(N)
             nd == IF which = "attr" THEN NewNode("attr", key[1], key[2], t, "", FALSE)
                                     ELSE NewNode("nsn", "", key[2], <<>>, u, FALSE)
         IN [n |-> InsertMapNode(Append(N, nd), e, which, f), old |-> 0]

MapRemove(N, e, which, key) ==
    LET hit == Lookup(N, e, which, key) IN
    IF hit = 0 THEN [n |-> N, old |-> 0] ELSE [n |-> FreeSet(N, {hit}), old |-> hit]

MapClear(N, e, which) == FreeSet(N, SeqRange(MapKids(N, e, which)))

\* append_attribute_node / append_namespace_node
AppendMapNode(N, e, x, which) ==
    IF ~(N[e].k = "elem" /\ N[x].k = which) THEN Unch(N)
    ELSE LET hit == Lookup(N, e, which, KeyOf(N, x)) IN
         IF hit # 0 THEN {Out("ok", SetVal(N, hit, which, N[x].t, N[x].u), hit)}
         ELSE {Out("ok", InsertMapNode(DetachRaw(N, x), e, which, x), x)}

-----------------------------------------------------------------------------
(* Namespace scope (used by create_missing_prefixes, clone_with_prefixes,   *)
(* deduplicate_namespaces; the read-only queries of C09 live in XotTree)    *)

DeclsAt(N, i) == IF N[i].k = "elem" THEN {<<N[x].ln, N[x].u>> : x \in SeqRange(NsKids(N, i))} ELSE {}

RECURSIVE ScopeB(_, _, _)
ScopeB(N, i, d) ==
    LET own == DeclsAt(N, i)
        up == IF d = 0 \/ N[i].p = 0 THEN {<<"xml", XmlNs>>} ELSE ScopeB(N, N[i].p, d - 1)
    IN own \cup {b \in up : \A o \in own : o[1] # b[1]}
\* bindings in scope at node i (nearest declaration wins; xmlns="" removes the default binding)
InScope(N, i) == {b \in ScopeB(N, i, Len(N)) : ~(b[1] = "" /\ b[2] = "")}

\* the element whose scope applies to node i (an attribute / namespace node: its parent)
ScopeElem(N, i) == IF N[i].k \in {"attr", "nsn"} THEN N[i].p ELSE i

\* can the name of node i (an element or an attribute) be written with the bindings in scope?
NameUsable(N, i) ==
    LET sc == IF ScopeElem(N, i) = 0 THEN {<<"xml", XmlNs>>} ELSE InScope(N, ScopeElem(N, i)) IN
    IF N[i].k = "elem" THEN
        IF N[i].ns = "" THEN ~\E b \in sc : b[1] = ""
        ELSE \E b \in sc : b[2] = N[i].ns
    ELSE IF N[i].k = "attr" THEN
        N[i].ns = "" \/ \E b \in sc : b[2] = N[i].ns /\ b[1] # ""
    ELSE TRUE

Named(N, top) == {i \in Subtree(N, top) : N[i].k \in {"elem", "attr"}}
Usable(N, top) == \A i \in Named(N, top) : NameUsable(N, i)

-----------------------------------------------------------------------------
(* Shapes: identity-free value of a subtree (for clones and parsed trees)   *)

RECURSIVE ShapeB(_, _, _), ShapeKids(_, _, _, _)
ShapeB(N, i, d) ==
    [k |-> N[i].k, ns |-> N[i].ns, ln |-> N[i].ln, t |-> N[i].t, u |-> N[i].u, dd |-> N[i].d,
     kids |-> IF d = 0 THEN <<>> ELSE ShapeKids(N, N[i].c, 1, d - 1)]
ShapeKids(N, kids, j, d) == IF j > Len(kids) THEN <<>> ELSE <<ShapeB(N, kids[j], d)>> \o ShapeKids(N, kids, j + 1, d)
Shape(N, i) == ShapeB(N, i, Len(N))

\* the same with every run of adjacent text children merged into its first node
Absorbed(N, i) == N[i].k = "text" /\ IsText(N, PrevNorm(N, i))
RECURSIVE RunText(_, _, _)
RunText(N, i, d) ==
    LET nx == NextNorm(N, i) IN
    N[i].t \o (IF d > 0 /\ IsText(N, nx) THEN RunText(N, nx, d - 1) ELSE <<>>)
RECURSIVE ShapeMB(_, _, _), ShapeMKids(_, _, _, _)
ShapeMB(N, i, d) ==
    LET keep == SelectSeq(N[i].c, LAMBDA x : ~Absorbed(N, x)) IN
    [k |-> N[i].k, ns |-> N[i].ns, ln |-> N[i].ln,
     \* (d < Len(N): not the root of the shape - a single cloned text node is not a run)
     t |-> IF N[i].k = "text" /\ N[i].p # 0 /\ d < Len(N) THEN RunText(N, i, Len(N)) ELSE N[i].t,
     u |-> N[i].u, dd |-> N[i].d,
     kids |-> IF d = 0 THEN <<>> ELSE ShapeMKids(N, keep, 1, d - 1)]
ShapeMKids(N, kids, j, d) == IF j > Len(kids) THEN <<>> ELSE <<ShapeMB(N, kids[j], d)>> \o ShapeMKids(N, kids, j + 1, d)
ShapeMerged(N, i) == ShapeMB(N, i, Len(N))

\* P extends N by a block of fresh nodes that form exactly one new tree rooted at r
FreshTree(N, P, r) ==
    /\ Len(P) >= Len(N)
    /\ SubSeq(P, 1, Len(N)) = N
    /\ r \in (Len(N) + 1)..Len(P)
    /\ P[r].p = 0
    /\ Subtree(P, r) = (Len(N) + 1)..Len(P)

CloneOk(N, cons, x, P, r) ==
    /\ FreshTree(N, P, r)
    /\ \/ Shape(P, r) = Shape(N, x)
       \/ cons /\ Shape(P, r) = ShapeMerged(N, x)

-----------------------------------------------------------------------------
(* remove_insignificant_whitespace (C18)                                    *)

AllWs(t) == \A j \in 1..Len(t) : t[j] \in WS

RECURSIVE SpaceB(_, _, _)
\* value of the nearest xml:space attribute on an ancestor-or-self element of i (<<>> if none)
SpaceB(N, i, d) ==
    LET hits == IF N[i].k = "elem" THEN {a \in SeqRange(AttrKids(N, i)) : N[a].ns = XmlNs /\ N[a].ln = "space"} ELSE {} IN
    IF hits # {} THEN N[CHOOSE a \in hits : TRUE].t
    ELSE IF d = 0 \/ N[i].p = 0 THEN <<>> ELSE SpaceB(N, N[i].p, d - 1)
Preserved(N, i) == SpaceB(N, i, Len(N)) = PreserveCps

Insignificant(N, i) ==
    /\ N[i].k = "text" /\ AllWs(N[i].t)
    /\ ~Preserved(N, i)
    /\ N[i].p # 0 => \A s \in SeqRange(NormKids(N, N[i].p)) : N[s].k = "text" => AllWs(N[s].t)

Riw(N, x) == OkSet({FreeSet(N, {i \in Subtree(N, x) : IsNormal(N, i) /\ Insignificant(N, i)})})

-----------------------------------------------------------------------------
(* text_content_mut                                                         *)
TextContentSet(N, cons, x, s) ==
    LET kids == IF N[x].k \in {"elem", "doc"} THEN NormKids(N, x) ELSE <<>> IN
    IF Len(kids) = 1 /\ N[kids[1]].k = "text" THEN OkSet({[N EXCEPT ![kids[1]].t = s]})
    ELSE IF Len(kids) = 0 /\ N[x].k = "elem"
         THEN OkSet({InsertNormalAt(Append(N, NewNode("text", "", "", s, "", FALSE)), x, Fresh(N), 1)})
    ELSE NoneUnch(N)

-----------------------------------------------------------------------------
(* Relations for the calls whose result the properties only constrain       *)

\* P is N plus fresh namespace nodes hung under elements of Subtree(top); nothing else differs
OnlyAddsDecls(N, P, top) ==
    /\ Len(P) >= Len(N)
    /\ \A i \in (Len(N) + 1)..Len(P) :
          P[i].k = "nsn" /\ P[i].p \in Subtree(N, top) /\ P[i].p <= Len(N) /\ N[P[i].p].k = "elem"
    /\ \A i \in 1..Len(N) :
          /\ [P[i] EXCEPT !.c = <<>>] = [N[i] EXCEPT !.c = <<>>]
          /\ SelectSeq(P[i].c, LAMBDA y : y <= Len(N)) = N[i].c

\* bindings to namespaces that a name at element e uses are not overridden at e
DependedBindingsKept(N, P, top) ==
    \A e \in {i \in Subtree(N, top) : N[i].k = "elem"} :
        LET used == {N[e].ns} \cup {N[a].ns : a \in SeqRange(AttrKids(N, e))} IN
        \A b \in InScope(N, e) : b[2] \in used /\ b[2] # "" => b \in InScope(P, e)

\* the node whose subtree is repaired: the element itself, or the document / fragment (all its top-level elements)
CmpTarget(N, x) ==
    IF N[x].k = "doc"
    THEN LET es == SelectSeq(NormKids(N, x), LAMBDA y : N[y].k = "elem") IN IF Len(es) = 0 THEN 0 ELSE x
    ELSE IF N[x].k = "elem" THEN x ELSE 0

CmpOk(N, P, x) ==
    LET top == CmpTarget(N, x) IN
    /\ top # 0
    /\ OnlyAddsDecls(N, P, top)
    \* what it adds can be written down: not the xml prefix, not the XML namespace under another name, not xmlns:p=""
    /\ \A i \in (Len(N) + 1)..Len(P) : P[i].ln \notin {"xml", "xmlns"} /\ P[i].u \notin {"", XmlNs}
    /\ DependedBindingsKept(N, P, top)
    /\ Usable(P, top)

\* P is N with some namespace nodes of Subtree(x) freed and nothing else changed
OnlyRemovesDecls(N, P, x) ==
    /\ Len(P) = Len(N)
    /\ LET gone == {i \in 1..Len(N) : P[i].k = "rm" /\ N[i].k # "rm"} IN
       /\ \A i \in gone : N[i].k = "nsn" /\ i \in Subtree(N, x) /\ N[i].p # 0
       /\ P = FreeSet(N, gone)

\* what the names of Subtree(x) resolve through is still there: every name usable before is usable after
DedupKeepsUsable(N, P, x) == \A i \in Named(N, x) : NameUsable(N, i) => NameUsable(P, i)
\* ... and what they resolve through INSIDE the subtree the call was made on is still there: a name that could be written
\* with the declarations of Subtree(x) alone (the subtree taken on its own, as after detach) still can.  Redundancy is a
\* matter of the subtree; a binding further up does not make a declaration inside it superfluous.
CutAt(N, x) == [N EXCEPT ![x].p = 0]
DedupKeepsSelfContained(N, P, x) ==
    (N[x].k = "elem" /\ N[x].p # 0) => \A i \in Named(N, x) : NameUsable(CutAt(N, x), i) => NameUsable(CutAt(P, x), i)


-----------------------------------------------------------------------------
(* The dispatcher: does L1 accept outcome o = [res, n, ret, rv, has, rvs] of *)
(* call e in forest N ?  For calls with finitely many allowed outcomes this  *)
(* is membership in an explicitly constructed set (EnumAllowed); for calls   *)
(* the properties only constrain (clones, parsing, prefix repair,            *)
(* deduplication) it is a relation between N and o.n.                        *)

ElementOnlyOps == {"attr_session", "ns_session", "set_element_name", "set_attribute", "remove_attribute", "attr_insert", "attr_remove",
    "attr_clear", "attr_get_mut", "attr_entry_or_insert", "attr_entry_or_insert_with", "attr_entry_or_default",
    "attr_entry_and_modify_or_insert", "attr_entry_occupied_insert", "attr_entry_occupied_remove",
    "attr_entry_vacant_insert", "set_namespace", "remove_namespace", "ns_insert", "ns_remove", "ns_clear",
    "ns_get_mut", "ns_entry_or_insert", "ns_entry_occupied_remove"}

RelationalOps == {"clone_node", "clone_with_prefixes", "cmp", "dedup", "dedup2", "parse", "parse_fragment"}

A1(e) == IF Len(e.a) >= 1 THEN e.a[1] ELSE 0
A2(e) == IF Len(e.a) >= 2 THEN e.a[2] ELSE 0

\* attribute-map call results
AttrVal(N, i) == IF i = 0 THEN <<>> ELSE N[i].t
NsVal(N, i) == IF i = 0 THEN "" ELSE N[i].u

EnumAllowed(e, N, cons) ==
    LET x == A1(e)  y == A2(e)
        key == <<e.ns, e.ln>>
        pkey == <<"", e.px>>
        hitA == Lookup(N, x, "attr", key)
        hitN == Lookup(N, x, "nsn", pkey)
        insA == MapInsert(N, x, "attr", key, e.s, "")
        insN == MapInsert(N, x, "nsn", pkey, <<>>, e.uri)
        remA == MapRemove(N, x, "attr", key)
        remN == MapRemove(N, x, "nsn", pkey)
        body ==
          CASE e.op = "append" -> OpAppend(N, cons, x, y)
            [] e.op = "prepend" -> OpPrepend(N, cons, x, y)
            [] e.op = "insert_before" -> InsertRel(N, cons, x, y, FALSE)
            [] e.op = "insert_after" -> InsertRel(N, cons, x, y, TRUE)
            [] e.op = "any_append" ->
                   IF N[y].k = "nsn" THEN AppendMapNode(N, x, y, "nsn")
                   ELSE IF N[y].k = "attr" THEN AppendMapNode(N, x, y, "attr")
                   ELSE WithRet(OpAppend(N, cons, x, y), y)
            [] e.op = "append_attribute_node" -> AppendMapNode(N, x, y, "attr")
            [] e.op = "append_namespace_node" -> AppendMapNode(N, x, y, "nsn")
            [] e.op = "detach" -> OpDetach(N, cons, x)
            [] e.op = "remove" -> OpRemove(N, cons, x)
            [] e.op = "replace" -> OpReplace(N, cons, x, y)
            [] e.op = "element_unwrap" -> ElementUnwrap(N, cons, x)
            [] e.op = "element_wrap" -> ElementWrap(N, x, e.ns, e.ln)
            [] e.op = "new_document_with_element" -> NewDocumentWithElement(N, cons, x)
            [] e.op = "new_document" -> Create(N, NewNode("doc", "", "", <<>>, "", FALSE))
            [] e.op = "new_element" -> Create(N, NewNode("elem", e.ns, e.ln, <<>>, "", FALSE))
            [] e.op = "new_text" -> Create(N, NewNode("text", "", "", e.s, "", FALSE))
            [] e.op = "new_comment" -> Create(N, NewNode("comm", "", "", e.s, "", FALSE))
            [] e.op = "new_pi" -> Create(N, NewNode("pi", e.ns, e.ln, IF e.b THEN e.s ELSE <<>>, "", e.b))
            [] e.op = "new_attribute_node" -> Create(N, NewNode("attr", e.ns, e.ln, e.s, "", FALSE))
            [] e.op = "new_namespace_node" -> Create(N, NewNode("nsn", "", e.px, <<>>, e.uri, FALSE))
            [] e.op = "append_text" -> AppendFresh(N, cons, x, NewNode("text", "", "", e.s, "", FALSE))
            [] e.op = "append_element" -> AppendFresh(N, cons, x, NewNode("elem", e.ns, e.ln, <<>>, "", FALSE))
            [] e.op = "append_comment" -> AppendFresh(N, cons, x, NewNode("comm", "", "", e.s, "", FALSE))
            [] e.op = "append_pi" -> AppendFresh(N, cons, x, NewNode("pi", e.ns, e.ln, IF e.b THEN e.s ELSE <<>>, "", e.b))
            [] e.op = "append_namespace" ->
                   IF N[x].k # "elem" THEN Unch(N)
                   ELSE {Out("ok", insN.n, IF insN.old # 0 THEN insN.old ELSE Fresh(N))}
            [] e.op = "set_element_name" -> OkSet({[N EXCEPT ![x].ns = e.ns, ![x].ln = e.ln]})
            [] e.op = "text_set" -> IF N[x].k = "text" THEN OkSet({[N EXCEPT ![x].t = e.s]}) ELSE NoneUnch(N)
            [] e.op = "comment_set" ->
                   IF N[x].k # "comm" THEN NoneUnch(N)
                   ELSE IF \E j \in 1..(Len(e.s) - 1) : e.s[j] = 45 /\ e.s[j + 1] = 45 THEN Unch(N)
                   ELSE OkSet({[N EXCEPT ![x].t = e.s]})
            [] e.op = "pi_set_data" ->
                   IF N[x].k # "pi" THEN NoneUnch(N)
                   ELSE OkSet({[N EXCEPT ![x].t = IF e.b THEN e.s ELSE <<>>, ![x].d = e.b /\ e.s # <<>>]})
            \* set_data(Some("")) means "no data"
            [] e.op = "pi_set_target" -> IF N[x].k = "pi" THEN OkSet({[N EXCEPT ![x].ns = e.ns, ![x].ln = e.ln]}) ELSE NoneUnch(N)
            [] e.op = "element_mut_set_name" -> IF N[x].k = "elem" THEN OkSet({[N EXCEPT ![x].ns = e.ns, ![x].ln = e.ln]}) ELSE NoneUnch(N)
            [] e.op = "attr_set_value" -> IF N[x].k = "attr" THEN OkSet({[N EXCEPT ![x].t = e.s]}) ELSE NoneUnch(N)
            [] e.op = "nsnode_set_namespace" -> IF N[x].k = "nsn" THEN OkSet({[N EXCEPT ![x].u = e.uri]}) ELSE NoneUnch(N)
            [] e.op = "text_content_set" -> TextContentSet(N, cons, x, e.s)
            [] e.op = "set_attribute" -> {OutV(insA.n, <<>>, FALSE)}
            [] e.op = "remove_attribute" -> {OutV(remA.n, <<>>, FALSE)}
            [] e.op = "attr_insert" -> {OutV(insA.n, AttrVal(N, insA.old), insA.old # 0)}
            \* two insertions through one mutable view: (ns, ln) := s, then ("", px) := "w" (the second result is returned)
            [] e.op = "attr_session" ->
                   LET second == MapInsert(insA.n, x, "attr", <<"", e.px>>, <<119>>, "") IN
                   {OutV(second.n, AttrVal(insA.n, second.old), second.old # 0)}
            [] e.op = "ns_session" ->
                   LET second == MapInsert(insN.n, x, "nsn", <<"", e.ln>>, <<>>, "u3") IN
                   {OutS(second.n, NsVal(insN.n, second.old), second.old # 0)}
            [] e.op = "attr_remove" -> {OutV(remA.n, AttrVal(N, remA.old), remA.old # 0)}
            [] e.op = "attr_clear" -> {OutV(MapClear(N, x, "attr"), <<>>, FALSE)}
            [] e.op = "attr_get_mut" ->
                   IF hitA = 0 THEN {OutV(N, <<>>, FALSE)} ELSE {OutV(insA.n, N[hitA].t, TRUE)}
            [] e.op \in {"attr_entry_or_insert", "attr_entry_or_insert_with"} ->
                   IF hitA = 0 THEN {OutV(insA.n, e.s, TRUE)} ELSE {OutV(N, N[hitA].t, TRUE)}
            [] e.op = "attr_entry_or_default" ->
                   IF hitA = 0 THEN {OutV(MapInsert(N, x, "attr", key, <<>>, "").n, <<>>, TRUE)}
                   ELSE {OutV(N, N[hitA].t, TRUE)}
            [] e.op = "attr_entry_and_modify_or_insert" ->
                   IF hitA = 0 THEN {OutV(insA.n, e.s, TRUE)}
                   ELSE {OutV([N EXCEPT ![hitA].t = @ \o <<33>>], N[hitA].t \o <<33>>, TRUE)}
            [] e.op = "attr_entry_occupied_insert" ->
                   IF hitA = 0 THEN {OutV(N, <<>>, FALSE)} ELSE {OutV(insA.n, N[hitA].t, TRUE)}
            [] e.op = "attr_entry_occupied_remove" ->
                   IF hitA = 0 THEN {OutV(N, <<>>, FALSE)} ELSE {OutV(remA.n, N[hitA].t, TRUE)}
            [] e.op = "attr_entry_vacant_insert" ->
                   IF hitA = 0 THEN {OutV(insA.n, e.s, TRUE)} ELSE {OutV(N, <<>>, FALSE)}
            [] e.op = "set_namespace" -> {OutS(insN.n, "", FALSE)}
            [] e.op = "remove_namespace" -> {OutS(remN.n, "", FALSE)}
            [] e.op = "ns_insert" -> {OutS(insN.n, NsVal(N, insN.old), insN.old # 0)}
            [] e.op = "ns_remove" -> {OutS(remN.n, NsVal(N, remN.old), remN.old # 0)}
            [] e.op = "ns_clear" -> {OutS(MapClear(N, x, "nsn"), "", FALSE)}
            [] e.op = "ns_get_mut" ->
                   IF hitN = 0 THEN {OutS(N, "", FALSE)} ELSE {OutS(insN.n, N[hitN].u, TRUE)}
            [] e.op = "ns_entry_or_insert" ->
                   IF hitN = 0 THEN {OutS(insN.n, e.uri, TRUE)} ELSE {OutS(N, N[hitN].u, TRUE)}
            [] e.op = "ns_entry_occupied_remove" ->
                   IF hitN = 0 THEN {OutS(N, "", FALSE)} ELSE {OutS(remN.n, N[hitN].u, TRUE)}
            [] e.op \in {"riw", "riw2"} -> Riw(N, x)       \* (a second application changes nothing: TLC-checked RiwIdempotent)
            [] e.op = "clone_store" -> OkSet({N})
            [] e.op = "set_cons" -> OkSet({N})
            [] OTHER -> {}
    IN IF e.op \in ElementOnlyOps /\ N[x].k # "elem"
       THEN PanicUnch(N) \cup OkSet({N})      \* documented panic of the element-only accessors
       ELSE body

\* a second deduplicate_namespaces on the same node directly after a first one must remove nothing
Accepts(e, N, cons, o, prevWasSameDedup) ==
    LET x == A1(e)  P == o.n IN
    CASE e.op \in {"clone_node", "clone_with_prefixes"} /\ ~(e.op = "clone_with_prefixes" /\ N[x].k = "elem") ->
             o.res = "ok" /\ CloneOk(N, cons, x, P, o.ret)
      [] e.op = "clone_with_prefixes" ->
             \* clone plus extra declarations on the clone's root taken from the scope the source inherits
             /\ o.res = "ok" /\ o.ret \in (Len(N) + 1)..Len(P)
             /\ LET r == o.ret
                    inherited == IF N[x].p = 0 THEN {} ELSE InScope(N, N[x].p)
                    extras == {j \in SeqRange(NsKids(P, r)) : <<P[j].ln, P[j].u>> \notin DeclsAt(N, x)}
                    Q == [i \in 1..Len(P) |-> IF i = r THEN [P[i] EXCEPT !.c = Without(@, extras)] ELSE P[i]]
                IN /\ FreshTree(N, P, r)
                   /\ \/ Shape(Q, r) = Shape(N, x)
                      \/ cons /\ Shape(Q, r) = ShapeMerged(N, x)
                   /\ \A j \in extras : <<P[j].ln, P[j].u>> \in inherited
                   \* the clone's names are usable on their own wherever the source's were usable in place
                   /\ LET src == SelectSeq(PreAll(N, x), LAMBDA i : ~(cons /\ Shape(Q, r) # Shape(N, x) /\ Absorbed(N, i)))
                          dst == SelectSeq(PreAll(P, r), LAMBDA i : i \notin extras)
                      IN Len(src) = Len(dst) /\
                         \A j \in 1..Len(src) : N[src[j]].k \in {"elem", "attr"} /\ NameUsable(N, src[j]) => NameUsable(P, dst[j])
      [] e.op = "cmp" ->
             IF CmpTarget(N, x) = 0 THEN o.res = "err" /\ P = N
             ELSE o.res = "ok" /\ CmpOk(N, P, x)
      [] e.op \in {"dedup", "dedup2"} ->
             /\ o.res = "ok" /\ OnlyRemovesDecls(N, P, x) /\ DedupKeepsUsable(N, P, x) /\ DedupKeepsSelfContained(N, P, x)
             /\ prevWasSameDedup => P = N
      [] e.op \in {"parse", "parse_fragment"} ->
             \/ o.res = "err" /\ P = N
             \/ o.res = "ok" /\ FreshTree(N, P, o.ret) /\ P[o.ret].k = "doc"
      [] OTHER -> o \in EnumAllowed(e, N, cons)

\* Is the call inside its documented precondition (the domain of property C05)?
InDomain(e, N, cons) ==
    IF e.op \in RelationalOps THEN TRUE
    ELSE \E o \in EnumAllowed(e, N, cons) : o.res = "ok"

=============================================================================
