SPECIFICATION Spec
CONSTANT Dump = FALSE
INVARIANTS ValidLayout ResolutionIsFunction
CHECK_DEADLOCK FALSE
