#!/usr/bin/env python3
"""Development aid: run the forest replay+drive and print rejections grouped by class."""
import json, os, sys, collections, random
sys.path.insert(0, os.path.dirname(os.path.abspath(__file__)))
import vlib, engines
seed = int(sys.argv[1]) if len(sys.argv) > 1 else 1
nstates = int(sys.argv[2]) if len(sys.argv) > 2 else 300
episodes = int(sys.argv[3]) if len(sys.argv) > 3 else 300
exe = vlib.build_harness()
d = vlib.workdir("triage")
sp = os.path.join(d, "states.ndjson")
cache = os.path.join(vlib.WORK, "states_cache.json")
if os.path.exists(cache):
    states = json.load(open(cache))
else:
    states, _ = engines.forest_states("quick", seed, "triage")
    json.dump(states, open(cache, "w"))
random.Random(seed).shuffle(states)
with open(sp, "w") as f:
    for st in states[:nstates]:
        f.write(json.dumps(st) + "\n")
rp = os.path.join(d, "replay.ndjson")
vlib.run_harness(exe, ["forest-replay", "--states", sp, "--out", rp, "--seed", str(seed), "--full"])
dp = os.path.join(d, "drive.ndjson")
prof = [a.split("=")[1] for a in sys.argv if a.startswith("--profile=")]
vlib.run_harness(exe, ["forest-drive", "--seed", str(seed), "--episodes", str(episodes), "--len", "40", "--out", dp] + (["--profile", prof[0]] if prof else []) + (["--views"] if "--views" in sys.argv else []))
groups = collections.defaultdict(list)
for name, path in (("replay", rp), ("drive", dp)):
    v = vlib.validate_trace(path, nshards=14, tag="tri_" + name)
    print(name, v["events"], "events", len(v["rejects"]), "rejects")
    for rj in v["rejects"]:
        c = engines.event_class(v["lines"], rj["line"])
        key = (rj["prop"], rj["known"]) + c + (str(rj["detail"][0]) if rj["detail"] else "",)
        groups[key].append((name, rj["line"], rj))
    if name == "replay":
        lines_rp = v["lines"]
    else:
        lines_dr = v["lines"]
for key in sorted(groups):
    items = groups[key]
    name, line, rj = items[0]
    lines = lines_rp if name == "replay" else lines_dr
    sc = vlib.scenario_for(lines, line)
    print(len(items), key, json.dumps(rj["detail"])[:150])
    if "-v" in sys.argv:
        print("    pre:", json.dumps([ (i+1, n["k"], n["p"], n["c"], "".join(map(chr,n["t"]))) for i, n in enumerate(sc["pre"]["n"])]), "cons", sc["pre"]["cons"])
        print("    post:", json.dumps([ (i+1, n["k"], n["p"], n["c"], "".join(map(chr,n["t"]))) for i, n in enumerate(sc["observed"]["post"]["n"])]))
