------------------------------ MODULE XotParseL2 ------------------------------
(***************************************************************************)
(* L2: the tree builder behind Xot::parse / parse_fragment (src/parse.rs:  *)
(* DocumentBuilder, NameIdBuilder and the checks after tokenising)         *)
(* transcribed as written, over the token alphabet of XotParse:            *)
(*   - a stack of namespace frames (bottom: xml -> XML namespace, then     *)
(*     "" -> no namespace), one frame pushed per start tag and popped per  *)
(*     end tag / empty-element tag; a prefix is resolved by searching the  *)
(*     frames from the top, each frame from its last entry;                *)
(*   - the names of the open elements as written, compared with the end    *)
(*     tag as written;                                                     *)
(*   - character data appended to the last child when that is a text node; *)
(*   - duplicate attributes first as written, then by expanded name;       *)
(*     duplicate prefixes; duplicate xml:id;                               *)
(*   - after the last token: everything closed, and for documents exactly  *)
(*     one element and no text at the top level.                           *)
(* MCParse compares it with Denote (L1) on every token sequence up to a    *)
(* bound: same verdict and, when accepted, the same forest node for node.  *)
(***************************************************************************)
EXTENDS XotParse

PInit(mode) ==
    [N |-> <<NewNode("doc", "", "", <<>>, "", FALSE)>>, cur |-> 1, open |-> <<>>,
     stack |-> << <<<<"xml", XmlNs>>>>, <<<<"", "">>>> >>, ids |-> {}, ok |-> TRUE, why |-> "", ntok |-> 0, mode |-> mode]
PFail(st, why) == [st EXCEPT !.ok = FALSE, !.why = why]

\* NameIdBuilder::name_id_with_prefix_id: frames from the top, each frame from its last entry
RECURSIVE FrameFind(_, _, _)
FrameFind(fr, j, px) == IF j = 0 THEN "?none" ELSE IF fr[j][1] = px THEN fr[j][2] ELSE FrameFind(fr, j - 1, px)
RECURSIVE StackFind(_, _, _)
StackFind(stack, k, px) ==
    IF k = 0 THEN "?none"
    ELSE LET r == FrameFind(stack[k], Len(stack[k]), px) IN IF r # "?none" THEN r ELSE StackFind(stack, k - 1, px)
Resolve(stack, px) == StackFind(stack, Len(stack), px)

PAdd(st, nd) ==
    LET f == Len(st.N) + 1 IN
    [st EXCEPT !.N = [Append(st.N, [nd EXCEPT !.p = st.cur]) EXCEPT ![st.cur].c = Append(@, f)]]
PLastKid(st) == IF st.N[st.cur].c = <<>> THEN 0 ELSE st.N[st.cur].c[Len(st.N[st.cur].c)]
\* DocumentBuilder::text / cdata_text with consolidate_text
PText(st, v) ==
    LET last == PLastKid(st) IN
    IF last # 0 /\ st.N[last].k = "text" THEN [st EXCEPT !.N = [st.N EXCEPT ![last].t = @ \o v]]
    ELSE PAdd(st, NewNode("text", "", "", v, "", FALSE))

\* the Attribute tokens of one start tag, in order: declarations go to the namespace list, the rest to the attribute list
RECURSIVE PAttrs(_, _, _)
PAttrs(as, j, acc) ==          \* acc = [ns: seq of <<px, uri>>, at: seq of [px, ln, v], bad: string]
    IF j > Len(as) \/ acc.bad # "" THEN acc
    ELSE LET a == as[j] IN
         IF ~PiecesOk(a.pieces, TRUE, a.q) THEN [acc EXCEPT !.bad = "bad attribute value"]
         ELSE IF IsDecl(a) THEN
             LET px == DeclPrefix(a)  uri == UriOf(Val(a.pieces, TRUE)) IN
             IF \E q \in 1..Len(acc.ns) : acc.ns[q][1] = px THEN [acc EXCEPT !.bad = "prefix declared twice"]
             ELSE PAttrs(as, j + 1, [acc EXCEPT !.ns = Append(@, <<px, uri>>)])
         ELSE IF \E q \in 1..Len(acc.at) : acc.at[q].px = a.px /\ acc.at[q].ln = a.ln THEN [acc EXCEPT !.bad = "attribute duplicated as written"]
         ELSE LET v0 == Val(a.pieces, TRUE)
                  v == IF a.ln = "id" /\ a.px = "xml" THEN NormId(v0) ELSE v0
              IN PAttrs(as, j + 1, [acc EXCEPT !.at = Append(@, [px |-> a.px, ln |-> a.ln, v |-> v])])

RECURSIVE PAddNs(_, _, _)
PAddNs(st, ns, j) == IF j > Len(ns) THEN st ELSE PAddNs(PAdd(st, NewNode("nsn", "", ns[j][1], <<>>, ns[j][2], FALSE)), ns, j + 1)
RECURSIVE PAddAttrs(_, _, _, _)
PAddAttrs(st, at, j, seen) ==     \* seen: expanded names already added on this element
    IF j > Len(at) \/ ~st.ok THEN st
    ELSE LET a == at[j]
             ns == IF a.px = "" THEN "" ELSE Resolve(st.stack, a.px)
         IN IF ns = "?none" THEN PFail(st, "attribute prefix not declared")
            ELSE IF <<ns, a.ln>> \in seen THEN PFail(st, "attribute duplicated by expanded name")
            ELSE IF ns = XmlNs /\ a.ln = "id" /\ a.v \in st.ids THEN PFail(st, "duplicate xml:id")
            ELSE PAddAttrs([PAdd(st, NewNode("attr", ns, a.ln, a.v, "", FALSE))
                               EXCEPT !.ids = IF ns = XmlNs /\ a.ln = "id" THEN @ \cup {a.v} ELSE @],
                           at, j + 1, seen \cup {<<ns, a.ln>>})

\* open_element (+ close_element_immediate for an empty-element tag)
PStag(st, tk) ==
    LET b == PAttrs(tk.attrs, 1, [ns |-> <<>>, at |-> <<>>, bad |-> ""]) IN
    IF b.bad # "" THEN PFail(st, b.bad)
    ELSE IF \E q \in 1..Len(b.ns) : b.ns[q][2] = "?unknown-uri" THEN PFail(st, "TOOL: uri outside the table")
    ELSE LET st1 == [st EXCEPT !.open = Append(@, <<tk.px, tk.ln>>), !.stack = Append(@, b.ns)]
             ens == Resolve(st1.stack, tk.px)
         IN IF ens = "?none" THEN PFail(st1, "element prefix not declared")
            ELSE LET e == Len(st1.N) + 1
                     st2 == [PAdd(st1, NewNode("elem", ens, tk.ln, <<>>, "", FALSE)) EXCEPT !.cur = e]
                     st3 == PAddAttrs(PAddNs(st2, b.ns, 1), b.at, 1, {})
                 IN IF ~st3.ok THEN st3
                    ELSE IF tk.empty
                    THEN [st3 EXCEPT !.open = SubSeq(@, 1, Len(@) - 1), !.stack = SubSeq(@, 1, Len(@) - 1), !.cur = st3.N[e].p]
                    ELSE st3

PEtag(st, tk) ==
    IF st.open = <<>> \/ st.open[Len(st.open)] # <<tk.px, tk.ln>> THEN PFail(st, "end tag does not match")
    ELSE IF st.N[st.cur].k # "elem" THEN PFail(st, "end tag does not match")
    ELSE [st EXCEPT !.open = SubSeq(@, 1, Len(@) - 1), !.stack = SubSeq(@, 1, Len(@) - 1), !.cur = st.N[st.cur].p]

PStep(st0, tk) ==
    LET st == [st0 EXCEPT !.ntok = @ + 1]
        top == st.cur = 1
    IN IF ~st0.ok THEN st0
       ELSE CASE tk.k = "bom" -> IF st0.ntok # 0 \/ st0.mode # "doc" THEN PFail(st, "byte order mark not at the start") ELSE st0
              [] tk.k = "decl" -> IF st0.ntok # 0 THEN PFail(st, "declaration not at the start")       \* the tokenizer
                                 ELSE IF tk.ver # "1.0" THEN PFail(st, "version is not 1.0") ELSE st
              \* white space between top-level items is not a token for the document tokenizer
              [] tk.k = "ws" -> IF top /\ st.mode = "doc" THEN st ELSE PText(st, EolNorm(TextOfParts(tk.parts)))
              [] tk.k = "stag" -> PStag(st, tk)
              [] tk.k = "etag" -> PEtag(st, tk)
              \* (the document tokenizer of xmlparser refuses character data and CDATA sections outside the root element)
              [] tk.k \in {"text", "cdata"} /\ top /\ st.mode = "doc" ->
                     IF tk.k = "text" /\ ~PiecesOk(tk.pieces, FALSE, 0) THEN PFail(st, "bad character data") ELSE PFail(st, "text at top level")
              [] tk.k = "text" -> IF ~PiecesOk(tk.pieces, FALSE, 0) THEN PFail(st, "bad character data")
                                  ELSE IF Val(tk.pieces, FALSE) = <<>> THEN st
                                  ELSE PText(st, Val(tk.pieces, FALSE))
              \* (the pinned code added an empty text node for <![CDATA[]]> with no text before it: MCParse reported the
              \* disagreement with Denote on the one-token sequence; repaired)
              [] tk.k = "cdata" -> IF EolNorm(tk.v) = <<>> /\ ~(PLastKid(st) # 0 /\ st.N[PLastKid(st)].k = "text") THEN st
                                   ELSE PText(st, EolNorm(tk.v))
              [] tk.k = "comm" -> PAdd(st, NewNode("comm", "", "", tk.v, "", FALSE))
              [] tk.k = "pi" -> PAdd(st, NewNode("pi", "", tk.ln, tk.v, "", tk.hasdata))
              [] tk.k = "dtd" -> PFail(st, "DTD")
              [] OTHER -> PFail(st, "malformed markup")

RECURSIVE PRun(_, _, _)
PRun(st, toks, j) == IF j > Len(toks) THEN st ELSE PRun(PStep(st, toks[j]), toks, j + 1)

\* after the last token (parse_with_span_info / parse_fragment_with_span_info)
PFinish(st) ==
    IF ~st.ok THEN st
    ELSE IF st.cur # 1 THEN PFail(st, "unclosed tag")
    ELSE IF st.mode = "doc" THEN
        LET kids == st.N[1].c IN
        IF \E j \in 1..Len(kids) : st.N[kids[j]].k = "text" THEN PFail(st, "text at top level")
        ELSE IF Cardinality({j \in 1..Len(kids) : st.N[kids[j]].k = "elem"}) = 0 THEN PFail(st, "no root element")
        ELSE IF Cardinality({j \in 1..Len(kids) : st.N[kids[j]].k = "elem"}) > 1 THEN PFail(st, "second root element")
        ELSE st
    ELSE st
L2Parse(toks, mode) == PFinish(PRun(PInit(mode), toks, 1))

\* same verdict as Denote and, when accepted, the same forest
L2ParseRefines(toks, mode) ==
    LET a == L2Parse(toks, mode)  d == Denote(toks, mode) IN
    /\ a.ok = d.wf
    /\ a.ok => a.N = d.N
=============================================================================
