------------------------------ MODULE MCScope ------------------------------
(***************************************************************************)
(* Bounded-exhaustive generator and self-check for namespace scoping (C09, *)
(* C10, C15): every two-level declaration layout over three prefixes       *)
(* (default, p, q) and two namespaces, with the default namespace          *)
(* declared, redeclared and undeclared (xmlns=""), every choice of the     *)
(* outer / inner element's namespace and of the namespace of an attribute  *)
(* on the inner element.  Each layout is one initial state; TLC checks on  *)
(* each that the recursive definition of InScope agrees with the           *)
(* "nearest declaring ancestor" definition and that name resolution is a   *)
(* function, and prints it as a JSON forest for the harness.               *)
(***************************************************************************)
EXTENDS XotRender, TLC, Json

CONSTANT Dump

DefaultChoices == {"-", "", "u1", "u2"}      \* "-" = not declared; "" = xmlns=""
PrefixChoices == {"-", "u1", "u2"}

E(ns, ln, p, c) == [k |-> "elem", p |-> p, c |-> c, ns |-> ns, ln |-> ln, t |-> <<>>, u |-> "", d |-> FALSE]
NSN(px, u, p) == [k |-> "nsn", p |-> p, c |-> <<>>, ns |-> "", ln |-> px, t |-> <<>>, u |-> u, d |-> FALSE]
AT(ns, ln, p) == [k |-> "attr", p |-> p, c |-> <<>>, ns |-> ns, ln |-> ln, t |-> <<118>>, u |-> "", d |-> FALSE]

Decls(d0, dp, dq) ==
    (IF d0 = "-" THEN <<>> ELSE <<<<"", d0>>>>) \o (IF dp = "-" THEN <<>> ELSE <<<<"p", dp>>>>) \o (IF dq = "-" THEN <<>> ELSE <<<<"q", dq>>>>)

Mk(ns1, D1, ns2, D2, ans) ==
    LET n1 == Len(D1)  n2 == Len(D2)
        e2 == 2 + n1
        at == e2 + n2 + 1
    IN <<E(ns1, "a", 0, [j \in 1..n1 |-> 1 + j] \o <<e2>>)>>
       \o [j \in 1..n1 |-> NSN(D1[j][1], D1[j][2], 1)]
       \o <<E(ns2, "b", 1, [j \in 1..n2 |-> e2 + j] \o <<at>>)>>
       \o [j \in 1..n2 |-> NSN(D2[j][1], D2[j][2], e2)]
       \o <<AT(ans, "c", e2)>>

VARIABLES F, outer
vars == <<F, outer>>

\* Two steps, so that TLC's workers share the layouts: the initial states fix the outer element (72 of them, forest still
\* empty), one step adds the inner element (432 layouts each).
Blank == [n |-> <<>>, cons |-> TRUE, eo |-> FALSE]
Init == /\ F = Blank
        /\ outer \in [a0 : DefaultChoices, ap : PrefixChoices, aq : PrefixChoices, ns1 : {"", "u1"}]
Next == /\ F = Blank
        /\ outer' = outer
        /\ \E b0 \in DefaultChoices, bp \in PrefixChoices, bq \in PrefixChoices,
              ns2 \in {"", "u1", "u2"}, ans \in {"", "u1", "u2", XmlNs} :
             F' = [n |-> Mk(outer.ns1, Decls(outer.a0, outer.ap, outer.aq), ns2, Decls(b0, bp, bq), ans), cons |-> TRUE, eo |-> FALSE]
Spec == Init /\ [][Next]_vars

\* second, independent definition of the in-scope bindings: for each prefix the nearest declaring ancestor-or-self
Declaring(N, i, p) == SelectSeq(Ancestors(N, i), LAMBDA x : \E b \in DeclsAt(N, x) : b[1] = p)
InScope2(N, i) ==
    LET prefixes == {"", "p", "q"} IN
    ({<<p, CHOOSE u \in {b[2] : b \in {c \in DeclsAt(N, Declaring(N, i, p)[1]) : c[1] = p}} : TRUE>> :
        p \in {q \in prefixes : Declaring(N, i, q) # <<>>}} \ {<<"", "">>}) \cup {<<"xml", XmlNs>>}

ScopeDefsAgree == \A x \in Live(F.n) : InScope(F.n, x) = InScope2(F.n, x)
ResolutionIsFunction == \A x \in Live(F.n) : \A p \in {"", "p", "q", "xml"} : Cardinality(NsForPrefix(F.n, x, p)) <= 1
ValidLayout == StructValidCore(F.n)
\* a name that is usable has a qualified spelling that resolves back to it, and conversely
UsableIffSpellable ==
    \A x \in {y \in Live(F.n) : F.n[y].k \in {"elem", "attr"}} :
        NameUsable(F.n, x) <=> \E p \in {"", "p", "q", "xml"} : ResolveQName(F.n, x, p) = F.n[x].ns /\ (F.n[x].k = "attr" /\ F.n[x].ns # "" => p # "")
\* L2 transcriptions of the crate's namespace machinery agree with L1 on every layout (XotNsL2)
NsUniverse == {"u1", "u2", XmlNs}
L2Scope == L2ScopeRefines(F.n) /\ L2PrefixForRefines(F.n, NsUniverse) /\ L2StackBalanced(F.n)
L2Ser == L2SerRefines(F.n)
L2Unres == L2UnresolvedRefines(F.n)
L2CmpInv == L2CmpRefines(F.n)
L2DedupInv == L2DedupRefines(F.n)
\* the round trip inside the specification (XotRender)
RT == \A x \in ElemsAndDocs(F.n) : RoundTripOk(F.n, x)
DumpState == Dump /\ F # Blank => PrintT("STATE " \o ToJson(F))
=============================================================================
