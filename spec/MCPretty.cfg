SPECIFICATION Spec
CONSTANT Dump = FALSE
INVARIANTS InDomainAlways PrettyReflexive
CHECK_DEADLOCK FALSE
