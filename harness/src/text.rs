//! Engine C (parser side): feed texts / byte strings to every parse entry point under catch_unwind and log what
//! came back: result class, the projected tree, xml:id lookups, every recorded span, the error span; for accepted
//! input also validate_well_formed_document, the serialisation and its reparse (C02, C03, C17).
use crate::proj::{cps, from_cps, World};
use serde_json::{json, Value as J};
use std::panic::{catch_unwind, AssertUnwindSafe};
use xot::{Node, SpanInfo, SpanInfoKey, Value};

fn empty_state() -> J {
    json!({"n": [], "cons": true, "eo": false, "rs": [], "bad": ""})
}

fn encode(text: &str, enc: &str) -> Vec<u8> {
    match enc {
        "utf8" => text.as_bytes().to_vec(),
        "utf8bom" => {
            let mut v = vec![0xEF, 0xBB, 0xBF];
            v.extend_from_slice(text.as_bytes());
            v
        }
        "utf16le" => {
            let mut v = vec![0xFF, 0xFE];
            for u in text.encode_utf16() {
                v.extend_from_slice(&u.to_le_bytes());
            }
            v
        }
        "utf16be" => {
            let mut v = vec![0xFE, 0xFF];
            for u in text.encode_utf16() {
                v.extend_from_slice(&u.to_be_bytes());
            }
            v
        }
        // single-byte: only characters <= 0xFF are produced by the generator for these
        _ => text.chars().map(|c| (c as u32).min(255) as u8).collect(),
    }
}

fn spans_of(w: &World, si: &SpanInfo) -> J {
    let mut out = vec![];
    for id in 1..=w.handles.len() {
        let h = w.h(id);
        let mut push = |kind: &str, key: SpanInfoKey| {
            if let Some(sp) = si.get(key) {
                out.push(json!({"id": id, "kind": kind, "s": sp.start, "e": sp.end}));
            }
        };
        match w.xot.value(h) {
            Value::Element(_) => {
                push("es", SpanInfoKey::ElementStart(h));
                push("ee", SpanInfoKey::ElementEnd(h));
            }
            Value::Text(_) => push("text", SpanInfoKey::Text(h)),
            Value::Comment(_) => push("comm", SpanInfoKey::Comment(h)),
            Value::ProcessingInstruction(_) => {
                push("pit", SpanInfoKey::PiTarget(h));
                push("pic", SpanInfoKey::PiContent(h));
            }
            Value::Attribute(a) => {
                if let Some(p) = w.xot.parent(h) {
                    push("an", SpanInfoKey::AttributeName(p, a.name()));
                    push("av", SpanInfoKey::AttributeValue(p, a.name()));
                }
            }
            _ => {}
        }
    }
    J::Array(out)
}

fn err_span(e: &xot::ParseError) -> (i64, i64) {
    let r = e.span();
    (r.start as i64, r.end as i64)
}

/// One run of one entry point on one input.
/// Set by parse_job: parse with the manipulation API's text consolidation switched off beforehand (the parser must merge
/// character data and CDATA sections all the same).
pub static CONS_OFF: std::sync::atomic::AtomicBool = std::sync::atomic::AtomicBool::new(false);

pub fn run_entry(entry: &str, text: &str, bytes: Option<&[u8]>, idq: &[String]) -> J {
    let mut w = World::new();
    if CONS_OFF.load(std::sync::atomic::Ordering::Relaxed) {
        w.xot.set_text_consolidation(false);
    }
    let mut si: Option<SpanInfo> = None;
    let res: Result<Result<Node, (i64, i64)>, ()> = catch_unwind(AssertUnwindSafe(|| match entry {
        "parse" => w.xot.parse(text).map_err(|e| err_span(&e)),
        "parse_with_span_info" => w.xot.parse_with_span_info(text).map(|(n, s)| {
            si = Some(s);
            n
        }).map_err(|e| err_span(&e)),
        "parse_fragment" => w.xot.parse_fragment(text).map_err(|e| err_span(&e)),
        "parse_fragment_with_span_info" => w.xot.parse_fragment_with_span_info(text).map(|(n, s)| {
            si = Some(s);
            n
        }).map_err(|e| err_span(&e)),
        _ => w.xot.parse_bytes(bytes.unwrap()).map_err(|e| err_span(&e)),
    }))
    .map_err(|_| ());
    let mut ev = json!({"entry": entry, "res": "panic", "tree": empty_state(), "root": 0, "ids": [], "spans": [], "es": -1, "ee": -1,
                        "wfd": "na", "ser": "na", "sertext": [], "re": "na", "retree": empty_state(), "reroot": 0});
    let m = ev.as_object_mut().unwrap();
    match res {
        Err(()) => {}
        Ok(Err((s, e))) => {
            m.insert("res".into(), json!("err"));
            m.insert("es".into(), json!(s));
            m.insert("ee".into(), json!(e));
        }
        Ok(Ok(root)) => {
            m.insert("res".into(), json!("ok"));
            let rid = w.id_of(root);
            let tree = match catch_unwind(AssertUnwindSafe(|| w.project(Some(root)))) {
                Ok(t) => t,
                Err(_) => json!({"n": [], "cons": true, "eo": false, "rs": [], "bad": "projection-panicked"}),
            };
            m.insert("tree".into(), tree);
            m.insert("root".into(), json!(rid));
            let ids: Vec<J> = idq
                .iter()
                .map(|v| {
                    let n = w.xot.xml_id_node(root, v);
                    json!([cps(v), n.and_then(|n| w.known(n)).unwrap_or(0)])
                })
                .collect();
            m.insert("ids".into(), json!(ids));
            if let Some(si) = &si {
                m.insert("spans".into(), spans_of(&w, si));
            }
            if entry.starts_with("parse_fragment") {
                m.insert("wfd".into(), json!("na"));
            } else {
                let v = catch_unwind(AssertUnwindSafe(|| w.xot.validate_well_formed_document(root).is_ok()));
                m.insert("wfd".into(), json!(match v { Ok(true) => "ok", Ok(false) => "err", Err(_) => "panic" }));
            }
            // serialise and reparse (C03: whatever is accepted serialises, is accepted again, reparses deep-equal)
            let ser = catch_unwind(AssertUnwindSafe(|| w.xot.to_string(root)));
            match ser {
                Err(_) => {
                    m.insert("ser".into(), json!("panic"));
                }
                Ok(Err(_)) => {
                    m.insert("ser".into(), json!("err"));
                }
                Ok(Ok(s)) => {
                    m.insert("ser".into(), json!("ok"));
                    m.insert("sertext".into(), json!(cps(&s)));
                    let mut w2 = World::new();
                    let frag = entry.starts_with("parse_fragment");
                    let re = catch_unwind(AssertUnwindSafe(|| if frag { w2.xot.parse_fragment(&s).is_ok_and(|n| { w2.id_of(n); true }) } else { w2.xot.parse(&s).is_ok_and(|n| { w2.id_of(n); true }) }));
                    match re {
                        Err(_) => {
                            m.insert("re".into(), json!("panic"));
                        }
                        Ok(false) => {
                            m.insert("re".into(), json!("err"));
                        }
                        Ok(true) => {
                            m.insert("re".into(), json!("ok"));
                            let t2 = w2.project(None);
                            m.insert("retree".into(), t2);
                            m.insert("reroot".into(), json!(1));
                        }
                    }
                }
            }
        }
    }
    ev
}

/// job: {"mode": "doc"|"frag", "text": cps, "bytes": [..] (optional raw bytes instead of text), "encs": [...], "idq": [cps...], + passthrough}
pub fn parse_job(job: &J) -> J {
    let mode = job["mode"].as_str().unwrap_or("doc");
    let text = from_cps_lossless(&job["text"]);
    let idq: Vec<String> = job["idq"].as_array().map(|a| a.iter().map(from_cps).collect()).unwrap_or_default();
    CONS_OFF.store(job["consoff"].as_bool().unwrap_or(false), std::sync::atomic::Ordering::Relaxed);
    let mut runs = vec![];
    let raw: Option<Vec<u8>> = job["bytes"].as_array().map(|a| a.iter().map(|b| b.as_u64().unwrap_or(0) as u8).collect());
    if let Some(raw) = &raw {
        runs.push(run_entry("parse_bytes:raw", "", Some(raw), &idq));
    }
    if let Some(text) = &text {
        if mode == "doc" {
            runs.push(run_entry("parse", text, None, &idq));
            runs.push(run_entry("parse_with_span_info", text, None, &idq));
            for enc in job["encs"].as_array().map(|a| a.iter().map(|x| x.as_str().unwrap_or("").to_string()).collect::<Vec<_>>()).unwrap_or_default() {
                let b = encode(text, &enc);
                runs.push(run_entry(&format!("parse_bytes:{enc}"), "", Some(&b), &idq));
            }
        } else {
            runs.push(run_entry("parse_fragment", text, None, &idq));
            runs.push(run_entry("parse_fragment_with_span_info", text, None, &idq));
        }
    }
    let mut ev = job.clone();
    let m = ev.as_object_mut().unwrap();
    m.insert("op".into(), json!("parse"));
    m.insert("runs".into(), J::Array(runs));
    m.insert("blen".into(), json!(text.as_ref().map(|t| t.len()).unwrap_or(0)));
    // character boundaries of the text as byte offsets (C17: spans lie on character boundaries)
    ev
}

/// code points -> String; None if some code point is not a Unicode scalar value (cannot be a &str)
fn from_cps_lossless(v: &J) -> Option<String> {
    let a = v.as_array()?;
    let mut s = String::new();
    for x in a {
        s.push(char::from_u32(x.as_u64()? as u32)?);
    }
    Some(s)
}
