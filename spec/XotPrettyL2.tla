----------------------------- MODULE XotPrettyL2 -----------------------------
(***************************************************************************)
(* L2: the pretty printer's stack machine (src/output/pretty.rs, XML       *)
(* flavour: no inline elements), transcribed.  For the output events of a  *)
(* tree it yields, per event, the indentation level written before the     *)
(* token and whether a newline is written after it.  TLC checks (MCPretty) *)
(* that L2 refines the L1 clause of C14: white space is written only       *)
(* inside elements where indentation is allowed - no text child on the     *)
(* element or an ancestor, not suppressed, not in xml:space="preserve"     *)
(* scope with the innermost xml:space deciding.  A counterexample is a     *)
(* candidate defect of the algorithm (the pinned version had one: see      *)
(* DESIGN.md 11.3, indentation below a preserving element).                *)
(***************************************************************************)
EXTENDS XotSerial

\* stack entries: "mixed", or the xml:space state of an element without text children
ElementSpace(N, e) ==
    LET hits == {a \in SeqRange(AttrKids(N, e)) : N[a].ns = XmlNs /\ N[a].ln = "space"} IN
    IF hits = {} THEN "empty"
    ELSE LET v == N[CHOOSE a \in hits : TRUE].t IN
         IF v = PreserveCps THEN "preserve" ELSE IF v = <<100, 101, 102, 97, 117, 108, 116>> THEN "default" ELSE "empty"

InMixed(st) == \E j \in 1..Len(st) : st[j] = "mixed"
RECURSIVE InPreserveB(_, _)
InPreserveB(st, j) ==
    IF j = 0 THEN FALSE
    ELSE IF st[j] = "preserve" THEN TRUE
    ELSE IF st[j] \in {"default", "mixed"} THEN FALSE
    ELSE InPreserveB(st, j - 1)
InPreserve(st) == InPreserveB(st, Len(st))
RECURSIVE CountB(_, _, _)
CountB(st, j, inp) ==
    IF j > Len(st) THEN 0
    ELSE IF st[j] = "default" THEN 1 + CountB(st, j + 1, FALSE)
    ELSE IF st[j] = "preserve" THEN CountB(st, j + 1, TRUE)
    ELSE IF st[j] = "empty" THEN (IF inp THEN 0 ELSE 1) + CountB(st, j + 1, inp)
    ELSE CountB(st, j + 1, inp)
Indentation(st) == IF InMixed(st) \/ InPreserve(st) THEN 0 ELSE CountB(st, 1, FALSE)
Newline(st) == ~InMixed(st) /\ ~InPreserve(st)

HasKids(N, e) == NormKids(N, e) # <<>>

\* one step of prettify: event ev, stack st, suppress list sup  ->  [ind, nl, st']
PrettyStep(N, ev, st, sup) ==
    CASE ev.k = "sto" -> [ind |-> Indentation(st), nl |-> FALSE, st |-> st]
      [] ev.k \in {"comm", "pi"} -> [ind |-> Indentation(st), nl |-> Newline(st), st |-> st]
      [] ev.k = "stc" ->
            IF ~HasKids(N, ev.n) THEN [ind |-> 0, nl |-> FALSE, st |-> st]
            ELSE IF HasTextKid(N, ev.n) THEN [ind |-> 0, nl |-> FALSE, st |-> Append(st, "mixed")]
            ELSE LET st2 == Append(st, IF <<N[ev.n].ns, N[ev.n].ln>> \in sup THEN "mixed" ELSE ElementSpace(N, ev.n)) IN
                 [ind |-> 0, nl |-> Newline(st2), st |-> st2]
      [] ev.k = "et" ->
            IF ~HasKids(N, ev.n) THEN [ind |-> 0, nl |-> Newline(st), st |-> st]
            ELSE LET noind == InMixed(st) \/ InPreserve(st)
                     st2 == SubSeq(st, 1, Len(st) - 1)
                 IN [ind |-> IF noind THEN 0 ELSE Indentation(st2), nl |-> Newline(st2), st |-> st2]
      [] OTHER -> [ind |-> 0, nl |-> FALSE, st |-> st]

RECURSIVE PrettyRun(_, _, _, _, _)
PrettyRun(N, evs, j, st, sup) ==
    IF j > Len(evs) THEN <<>>
    ELSE LET r == PrettyStep(N, evs[j], st, sup) IN <<[ind |-> r.ind, nl |-> r.nl]>> \o PrettyRun(N, evs, j + 1, r.st, sup)
PrettyL2(N, top, sup) == PrettyRun(N, Events(N, top), 1, <<>>, sup)

\* L1: may white space be added directly inside element e (0 = outside the root element: always allowed)
RECURSIVE BlockedB(_, _, _, _)
BlockedB(N, e, sup, d) ==
    \/ HasTextKid(N, e) \/ (N[e].k = "elem" /\ <<N[e].ns, N[e].ln>> \in sup)
    \/ (d > 0 /\ N[e].p # 0 /\ BlockedB(N, N[e].p, sup, d - 1))
MayIndentInside(N, e, sup) == e = 0 \/ N[e].k = "doc" \/ (~BlockedB(N, e, sup, Len(N)) /\ ~Preserved(N, e))

\* where the white space of event j lands: before the token / after the token
InsideBefore(N, ev) == IF ev.k = "et" THEN ev.n ELSE N[ev.n].p
InsideAfter(N, ev) == IF ev.k = "stc" THEN ev.n ELSE N[ev.n].p

L2RefinesL1(N, top, sup) ==
    LET evs == Events(N, top)  out == PrettyL2(N, top, sup) IN
    \A j \in 1..Len(evs) :
        /\ out[j].ind > 0 => MayIndentInside(N, InsideBefore(N, evs[j]), sup)
        /\ out[j].nl => MayIndentInside(N, InsideAfter(N, evs[j]), sup)
=============================================================================
