SPECIFICATION Spec
CONSTANTS
  MaxNode = 4
  Names <- Names1
  Texts <- TextsXS
  Pfxs = {"p"}
  Uris = {"u1"}
  MaxText = 2
  Dump = FALSE
INVARIANTS Valid RefusalsAreStutters Total RiwIdempotent FrameHolds L2MovesRefine
PROPERTY StableIds
CONSTRAINT TextBound
CHECK_DEADLOCK FALSE
