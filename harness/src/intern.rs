//! Engine D: interning of names, namespaces and prefixes (C08).  Ids are opaque: the harness logs, per returned id,
//! its equivalence class (first-seen numbering by `==`, per table) and the strings read back through it.
use crate::rng::Rng;
use serde_json::{json, Value as J};
use std::collections::HashMap;
use std::io::Write;
use xot::{NameId, NamespaceId, PrefixId, Xot};

struct Classes {
    name: HashMap<NameId, usize>,
    ns: HashMap<NamespaceId, usize>,
    px: HashMap<PrefixId, usize>,
}

impl Classes {
    fn new() -> Self {
        Classes { name: HashMap::new(), ns: HashMap::new(), px: HashMap::new() }
    }
    fn name(&mut self, id: NameId) -> (usize, bool) {
        let n = self.name.len();
        let fresh = !self.name.contains_key(&id);
        (*self.name.entry(id).or_insert(n), fresh)
    }
    fn ns(&mut self, id: NamespaceId) -> (usize, bool) {
        let n = self.ns.len();
        let fresh = !self.ns.contains_key(&id);
        (*self.ns.entry(id).or_insert(n), fresh)
    }
    fn px(&mut self, id: PrefixId) -> (usize, bool) {
        let n = self.px.len();
        let fresh = !self.px.contains_key(&id);
        (*self.px.entry(id).or_insert(n), fresh)
    }
}

/// key as JSON {s, k, ns}: bulk member s{k} when k >= 0
fn key_str(s: &str, k: i64) -> String {
    if k >= 0 {
        format!("{s}{k}")
    } else {
        s.to_string()
    }
}

/// split a read-back string into (family, number) if it has the form <fam><digits> for the given family
fn split_key(v: &str, fam: &str, k: i64) -> J {
    if k >= 0 {
        if let Some(rest) = v.strip_prefix(fam) {
            if let Ok(n) = rest.parse::<i64>() {
                if rest == n.to_string() {
                    return json!({"s": fam, "k": n});
                }
            }
        }
    }
    json!({"s": v, "k": -1})
}

fn ev(op: &str, tbl: &str, s: &str, k: i64, ns: &str) -> serde_json::Map<String, J> {
    let mut m = serde_json::Map::new();
    m.insert("op".into(), json!(op));
    m.insert("tbl".into(), json!(tbl));
    m.insert("key".into(), json!({"s": s, "k": k, "ns": ns}));
    m.insert("has".into(), json!(false));
    m.insert("cls".into(), json!(-1));
    m.insert("fresh".into(), json!(false));
    m.insert("rb".into(), json!({"s": "", "k": -1}));
    m.insert("rbns".into(), json!(""));
    m.insert("lo".into(), json!(0));
    m.insert("hi".into(), json!(0));
    m.insert("newcls".into(), json!(0));
    m.insert("firstcls".into(), json!(-1));
    m.insert("contig".into(), json!(true));
    m.insert("must".into(), json!(false));
    m
}

pub fn intern_drive(seed: u64, episodes: usize, len: usize, big: usize, out: &str) {
    let mut f = std::io::BufWriter::new(std::fs::File::create(out).expect("create out"));
    let mut master = Rng::new(seed);
    let strs = ["a", "b", "c", "x1", "http://e/1", "", "xml", "space", "id", "http://www.w3.org/XML/1998/namespace", "é", "A",
                " a", "a ", " a ", "a\n", "\ta", " ", "a b", "Xml", "HTTP://E/1", "http://e/1/", "zz", "other", "n1", "n2", "q1", "v1", "w&x", "BR", "br", "DIV", "Br", "svg"];
    // texts for the opaque calls: accepted ones, and rejected ones that have registered new strings before the error
    // (text, what an accepted parse of it has registered: (table, string, namespace of a name))
    let texts: [(&str, &[(&str, &str, &str)]); 15] = [
        // a processing-instruction target is a plain name, whatever default namespace is in force around it
        ("<a xmlns='u1'><?zz d?><b><?q1?></b></a>", &[("name", "zz", ""), ("name", "q1", ""), ("name", "a", "u1"), ("name", "b", "u1")]),
        ("<?other x?><BR xmlns='http://www.w3.org/1999/xhtml'><br/></BR>", &[("name", "other", ""), ("name", "BR", "http://www.w3.org/1999/xhtml"), ("name", "br", "http://www.w3.org/1999/xhtml")]),
        // a prefix rebound on an inner element and used again behind it: both expanded names are registered
        ("<r xmlns:p='v1'><x xmlns:p='u1'><p:e/></x><p:e/></r>", &[("name", "e", "u1"), ("name", "e", "v1"), ("ns", "v1", ""), ("ns", "u1", "")]),
        ("<r xmlns='v1'><x xmlns='u1'><zz/></x><zz q1='1'/></r>", &[("name", "zz", "u1"), ("name", "zz", "v1"), ("name", "q1", "")]),
        ("<a xmlns='u1' xmlns:p='http://e/1' p:b='1'><p:c x1='2'/><b/></a>",
         &[("ns", "u1", ""), ("ns", "http://e/1", ""), ("px", "p", ""), ("name", "a", "u1"), ("name", "b", "u1"), ("name", "c", "http://e/1"),
           ("name", "b", "http://e/1"), ("name", "x1", "")]),
        ("<n1:a xmlns:n1='w&amp;x' xmlns='w&#38;x'><b c='1'/></n1:a>",
         &[("ns", "w&x", ""), ("px", "n1", ""), ("name", "a", "w&x"), ("name", "b", "w&x"), ("name", "c", "")]),
        ("<zz:a/>", &[]),
        ("<a><other:b/></a>", &[]),
        ("<a xmlns:n1='v1'><n1:b/><n2:c/></a>", &[]),
        ("<a xmlns:q1='v1'><q1:b></a>", &[]),
        ("<n1:a xmlns:n1='w&amp;x' xmlns='w&amp;x'><b n2:c='1'/></n1:a>", &[]),
        ("<a b='1' b='2'/>", &[]),
        ("<a><zz/><q1/></a>", &[("name", "zz", ""), ("name", "q1", ""), ("name", "a", "")]),
        ("<a xmlns:n2='v1' n2:zz='1' other='2'/>", &[("ns", "v1", ""), ("px", "n2", ""), ("name", "zz", "v1"), ("name", "other", "")]),
        ("<a xmlns:zz='v1'><zz:n1/></b>", &[]),
    ];
    for ep in 0..episodes {
        let mut r = master.fork();
        let mut x = Xot::new();
        let mut c = Classes::new();
        // builtins, observed in a fixed order
        let mut m = ev("reset", "", "", -1, "");
        let b = json!({
            "no_namespace": [c.ns(x.no_namespace()).0, x.namespace_str(x.no_namespace())],
            "xml_namespace": [c.ns(x.xml_namespace()).0, x.namespace_str(x.xml_namespace())],
            "empty_prefix": [c.px(x.empty_prefix()).0, x.prefix_str(x.empty_prefix())],
            "xml_prefix": [c.px(x.xml_prefix()).0, x.prefix_str(x.xml_prefix())],
            "xml_space": [c.name(x.xml_space_name()).0, x.name_ns_str(x.xml_space_name()).0, x.name_ns_str(x.xml_space_name()).1],
            "xml_id": [c.name(x.xml_id_name()).0, x.name_ns_str(x.xml_id_name()).0, x.name_ns_str(x.xml_id_name()).1],
        });
        m.insert("builtins".into(), b);
        writeln!(f, "{}", J::Object(m)).unwrap();
        let mut bulk_next = 0i64;
        let nsteps = if ep == 0 && big > 0 { 6 } else { len };
        // a panic of the code under test is data: it is logged as an event (the episode ends there)
        let mut last = String::new();
        let outcome = std::panic::catch_unwind(std::panic::AssertUnwindSafe(|| {
        for step in 0..nsteps {
            let roll = if ep == 0 && big > 0 { [90, 90, 90, 92, 92, 93][step % 6] } else { r.below(100) };
            let s = *r.pick(&strs);
            let nss = *r.pick(&["", "u1", "http://e/1", "http://www.w3.org/XML/1998/namespace", " u1", "u1 ", "U1", "https://www.w3.org/1999/xhtml",
                                "http://www.w3.org/1999/xhtml", "http://www.w3.org/2000/svg"]);
            last = format!("step {step} roll {roll} string {s:?} namespace {nss:?}");
            let mut m;
            if roll < 22 {
                m = ev("add", "ns", s, -1, "");
                let id = x.add_namespace(s);
                let (cl, fresh) = c.ns(id);
                m.insert("cls".into(), json!(cl));
                m.insert("fresh".into(), json!(fresh));
                m.insert("has".into(), json!(true));
                m.insert("rb".into(), split_key(x.namespace_str(id), s, -1));
            } else if roll < 40 {
                m = ev("add", "px", s, -1, "");
                let id = x.add_prefix(s);
                let (cl, fresh) = c.px(id);
                m.insert("cls".into(), json!(cl));
                m.insert("fresh".into(), json!(fresh));
                m.insert("has".into(), json!(true));
                m.insert("rb".into(), split_key(x.prefix_str(id), s, -1));
            } else if roll < 62 {
                m = ev("add", "name", s, -1, nss);
                let nsid = x.add_namespace(nss);
                // (the namespace registration is logged as its own event first)
                let mut m0 = ev("add", "ns", nss, -1, "");
                let (cl0, fresh0) = c.ns(nsid);
                m0.insert("cls".into(), json!(cl0));
                m0.insert("fresh".into(), json!(fresh0));
                m0.insert("has".into(), json!(true));
                m0.insert("rb".into(), split_key(x.namespace_str(nsid), nss, -1));
                writeln!(f, "{}", J::Object(m0)).unwrap();
                let id = if nss.is_empty() && r.chance(1, 2) { x.add_name(s) } else { x.add_name_ns(s, nsid) };
                let (cl, fresh) = c.name(id);
                m.insert("cls".into(), json!(cl));
                m.insert("fresh".into(), json!(fresh));
                m.insert("has".into(), json!(true));
                let (l, n) = x.name_ns_str(id);
                m.insert("rb".into(), split_key(l, s, -1));
                m.insert("rbns".into(), json!(n));
                if x.local_name_str(id) != l || x.uri_str(id) != n || x.namespace_for_name(id) != nsid {
                    m.insert("rbns".into(), json!("?inconsistent-accessors"));
                }
            } else if roll < 72 {
                m = ev("get", "ns", s, -1, "");
                if let Some(id) = x.namespace(s) {
                    let (cl, fresh) = c.ns(id);
                    m.insert("cls".into(), json!(cl));
                    m.insert("fresh".into(), json!(fresh));
                    m.insert("has".into(), json!(true));
                    m.insert("rb".into(), split_key(x.namespace_str(id), s, -1));
                }
            } else if roll < 80 {
                m = ev("get", "px", s, -1, "");
                if let Some(id) = x.prefix(s) {
                    let (cl, fresh) = c.px(id);
                    m.insert("cls".into(), json!(cl));
                    m.insert("fresh".into(), json!(fresh));
                    m.insert("has".into(), json!(true));
                    m.insert("rb".into(), split_key(x.prefix_str(id), s, -1));
                }
            } else if roll < 90 {
                m = ev("get", "name", s, -1, nss);
                let found = match x.namespace(nss) {
                    Some(nsid) => {
                        if nss.is_empty() && r.chance(1, 2) {
                            x.name(s)
                        } else {
                            x.name_ns(s, nsid)
                        }
                    }
                    None => None,
                };
                if let Some(id) = found {
                    let (cl, fresh) = c.name(id);
                    m.insert("cls".into(), json!(cl));
                    m.insert("fresh".into(), json!(fresh));
                    m.insert("has".into(), json!(true));
                    let (l, n) = x.name_ns_str(id);
                    m.insert("rb".into(), split_key(l, s, -1));
                    m.insert("rbns".into(), json!(n));
                }
            } else if roll < 92 {
                // bulk registration of a fresh family range in one of the tables
                let tbl = if ep == 0 && big > 0 { ["name", "ns", "px"][step % 3] } else { *r.pick(&["name", "ns", "px"]) };
                let n = if big > 0 && ep == 0 { big as i64 } else { 1 + r.below(40) as i64 };
                let (lo, hi) = (bulk_next, bulk_next + n);
                bulk_next = hi;
                m = ev("bulk", tbl, "fam", lo, "");
                m.insert("lo".into(), json!(lo));
                m.insert("hi".into(), json!(hi));
                let mut newcls = 0;
                let mut first: i64 = -1;
                let mut contig = true;
                let mut bad_rb = 0;
                for k in lo..hi {
                    let key = key_str("fam", k);
                    let (cl, fresh, back) = match tbl {
                        "name" => {
                            let id = x.add_name(&key);
                            let (cl, fr) = c.name(id);
                            (cl, fr, x.name_ns_str(id).0.to_string())
                        }
                        "ns" => {
                            let id = x.add_namespace(&key);
                            let (cl, fr) = c.ns(id);
                            (cl, fr, x.namespace_str(id).to_string())
                        }
                        _ => {
                            let id = x.add_prefix(&key);
                            let (cl, fr) = c.px(id);
                            (cl, fr, x.prefix_str(id).to_string())
                        }
                    };
                    if fresh {
                        newcls += 1;
                    }
                    if first < 0 {
                        first = cl as i64;
                    } else if cl as i64 != first + (k - lo) {
                        contig = false;
                    }
                    if back != key {
                        bad_rb += 1;
                    }
                }
                m.insert("newcls".into(), json!(newcls));
                m.insert("firstcls".into(), json!(first));
                m.insert("contig".into(), json!(contig && bad_rb == 0));
            } else if roll < 94 && bulk_next > 0 {
                // look up a member of an earlier bulk range (in all three tables: found in exactly one)
                let k = r.below(bulk_next as usize) as i64;
                let key = key_str("fam", k);
                for tbl in ["name", "ns", "px"] {
                    let mut m2 = ev("get", tbl, "fam", k, "");
                    let got: Option<(usize, bool, String)> = match tbl {
                        "name" => x.name(&key).map(|id| {
                            let (cl, fr) = c.name(id);
                            (cl, fr, x.name_ns_str(id).0.to_string())
                        }),
                        "ns" => x.namespace(&key).map(|id| {
                            let (cl, fr) = c.ns(id);
                            (cl, fr, x.namespace_str(id).to_string())
                        }),
                        _ => x.prefix(&key).map(|id| {
                            let (cl, fr) = c.px(id);
                            (cl, fr, x.prefix_str(id).to_string())
                        }),
                    };
                    if let Some((cl, fr, back)) = got {
                        m2.insert("cls".into(), json!(cl));
                        m2.insert("fresh".into(), json!(fr));
                        m2.insert("has".into(), json!(true));
                        m2.insert("rb".into(), split_key(&back, "fam", k));
                    }
                    writeln!(f, "{}", J::Object(m2)).unwrap();
                }
                continue;
            } else if roll < 93 {
                m = ev("clone", "", "", -1, "");
                x = x.clone();
            } else if roll < 97 {
                m = ev("opaque", "", "parse", -1, "");
                let (t, registered) = *r.pick(&texts);
                let accepted = match r.below(3) {
                    0 => x.parse(t).is_ok(),
                    1 => x.parse_fragment(t).is_ok(),
                    _ => x.parse_bytes(t.as_bytes()).is_ok(),
                };
                writeln!(f, "{}", J::Object(m)).unwrap();
                // what an accepted parse registered implicitly must be found by the read-only lookups
                if accepted {
                    for (tbl, key, kns) in registered.iter() {
                        let mut g = ev("get", tbl, key, -1, kns);
                        g.insert("must".into(), json!(true));
                        match *tbl {
                            "ns" => {
                                if let Some(id) = x.namespace(key) {
                                    let (cl, fresh) = c.ns(id);
                                    g.insert("cls".into(), json!(cl));
                                    g.insert("fresh".into(), json!(fresh));
                                    g.insert("has".into(), json!(true));
                                    g.insert("rb".into(), split_key(x.namespace_str(id), key, -1));
                                }
                            }
                            "px" => {
                                if let Some(id) = x.prefix(key) {
                                    let (cl, fresh) = c.px(id);
                                    g.insert("cls".into(), json!(cl));
                                    g.insert("fresh".into(), json!(fresh));
                                    g.insert("has".into(), json!(true));
                                    g.insert("rb".into(), split_key(x.prefix_str(id), key, -1));
                                }
                            }
                            _ => {
                                let found = x.namespace(kns).and_then(|nsid| x.name_ns(key, nsid));
                                if let Some(id) = found {
                                    let (cl, fresh) = c.name(id);
                                    g.insert("cls".into(), json!(cl));
                                    g.insert("fresh".into(), json!(fresh));
                                    g.insert("has".into(), json!(true));
                                    let (l, n) = x.name_ns_str(id);
                                    g.insert("rb".into(), split_key(l, key, -1));
                                    g.insert("rbns".into(), json!(n));
                                }
                            }
                        }
                        writeln!(f, "{}", J::Object(g)).unwrap();
                    }
                }
                continue;
            } else {
                // html5() registers the HTML element names itself; names registered before it (also upper-case ones in
                // the namespace it takes for XHTML) must keep their ids: register, call html5(), register again
                let hn = *r.pick(&["BR", "DIV", "br", "Img", "svg"]);
                let hns = *r.pick(&["https://www.w3.org/1999/xhtml", "http://www.w3.org/1999/xhtml", ""]);
                for round in 0..2 {
                    let nsid = x.add_namespace(hns);
                    let mut m0 = ev("add", "ns", hns, -1, "");
                    let (cl0, fresh0) = c.ns(nsid);
                    m0.insert("cls".into(), json!(cl0));
                    m0.insert("fresh".into(), json!(fresh0));
                    m0.insert("has".into(), json!(true));
                    m0.insert("rb".into(), split_key(x.namespace_str(nsid), hns, -1));
                    writeln!(f, "{}", J::Object(m0)).unwrap();
                    let id = x.add_name_ns(hn, nsid);
                    let mut m1 = ev("add", "name", hn, -1, hns);
                    let (cl, fresh) = c.name(id);
                    m1.insert("cls".into(), json!(cl));
                    m1.insert("fresh".into(), json!(fresh));
                    m1.insert("has".into(), json!(true));
                    let (l, n) = x.name_ns_str(id);
                    m1.insert("rb".into(), split_key(l, hn, -1));
                    m1.insert("rbns".into(), json!(n));
                    writeln!(f, "{}", J::Object(m1)).unwrap();
                    if round == 0 {
                        let mo = ev("opaque", "", "html5", -1, "");
                        let _ = x.html5();
                        writeln!(f, "{}", J::Object(mo)).unwrap();
                    }
                }
                continue;
            }
            writeln!(f, "{}", J::Object(m)).unwrap();
        }
        }));
        if outcome.is_err() {
            let m = ev("panic", "", &last, -1, "");
            writeln!(f, "{}", J::Object(m)).unwrap();
        }
    }
    f.flush().unwrap();
}
