------------------------------ MODULE XotTreeL2 ------------------------------
(***************************************************************************)
(* L2: the cursor-style iterators of src/access.rs transcribed as written  *)
(* (Following, ReversePreorder with a node filter; preceding as a chain of *)
(* reversed descendant lists), over the raw sibling / child links of the   *)
(* arena.  MCTree compares them with the document-order definitions of     *)
(* XotTree on every node of every reachable forest (L2AxesRefine).         *)
(***************************************************************************)
EXTENDS XotTree

\* raw arena links: position in the parent's full child list (namespace, attribute and normal nodes)
RawNext(N, i) == IF N[i].p = 0 THEN 0 ELSE LET c == N[N[i].p].c  k == Pos(c, i) IN IF k = Len(c) THEN 0 ELSE c[k + 1]
RawPrev(N, i) == IF N[i].p = 0 THEN 0 ELSE LET c == N[N[i].p].c  k == Pos(c, i) IN IF k = 1 THEN 0 ELSE c[k - 1]
RawFirst(N, i) == IF N[i].c = <<>> THEN 0 ELSE N[i].c[1]
RawLast(N, i) == IF N[i].c = <<>> THEN 0 ELSE N[i].c[Len(N[i].c)]

\* Following::following: the next node in document order that is not a descendant
RECURSIVE ClimbNext(_, _, _)
ClimbNext(N, cur, fuel) ==
    IF fuel = 0 \/ N[cur].p = 0 THEN 0
    ELSE LET s == RawNext(N, N[cur].p) IN IF s # 0 THEN s ELSE ClimbNext(N, N[cur].p, fuel - 1)
FollowingOf(N, i) == IF RawNext(N, i) # 0 THEN RawNext(N, i) ELSE ClimbNext(N, i, Len(N))

\* Iterator::next of Following, unrolled: cur is the cursor, keep the filter (all: every node; ~all: normal nodes)
RECURSIVE FollowingRun(_, _, _, _)
FollowingRun(N, cur, all, fuel) ==
    IF cur = 0 \/ fuel = 0 THEN <<>>
    ELSE LET nxt == IF RawFirst(N, cur) # 0 THEN RawFirst(N, cur) ELSE FollowingOf(N, cur)
         IN (IF all \/ IsNormal(N, cur) THEN <<cur>> ELSE <<>>) \o FollowingRun(N, nxt, all, fuel - 1)
L2Following(N, i, all) == FollowingRun(N, FollowingOf(N, i), all, Len(N) + 1)

\* ReversePreorder: previous sibling's rightmost deepest descendant, else the parent
RECURSIVE Deepest(_, _, _)
Deepest(N, i, fuel) == IF fuel = 0 \/ RawLast(N, i) = 0 THEN i ELSE Deepest(N, RawLast(N, i), fuel - 1)
RECURSIVE RevPreRun(_, _, _, _)
RevPreRun(N, cur, all, fuel) ==
    IF cur = 0 \/ fuel = 0 THEN <<>>
    ELSE LET pv == RawPrev(N, cur)
             nxt == IF pv # 0 THEN Deepest(N, pv, Len(N)) ELSE N[cur].p
         IN (IF all \/ IsNormal(N, cur) THEN <<cur>> ELSE <<>>) \o RevPreRun(N, nxt, all, fuel - 1)
L2ReversePreorder(N, i, all) == RevPreRun(N, i, all, Len(N) + 1)

\* preceding: for the node and each ancestor, the previous (same-category) siblings nearest first, each contributing
\* its descendants reversed
RECURSIVE SibsBack(_, _, _)
SibsBack(N, cur, fuel) ==
    IF fuel = 0 THEN <<>>
    ELSE LET pv == PrevSib(N, cur) IN IF pv = 0 THEN <<>> ELSE Rev(Descendants(N, pv)) \o SibsBack(N, pv, fuel - 1)
RECURSIVE PrecUp(_, _, _)
PrecUp(N, parent, fuel) ==
    IF parent = 0 \/ fuel = 0 THEN <<>> ELSE SibsBack(N, parent, Len(N)) \o PrecUp(N, N[parent].p, fuel - 1)
L2Preceding(N, i) == PrecUp(N, i, Len(N) + 1)

\* the transcriptions agree with the document-order definitions
L2AxesRefineAt(N, i) ==
    /\ L2Following(N, i, FALSE) = Following(N, i)
    /\ L2Following(N, i, TRUE) = AllFollowing(N, i)
    /\ L2ReversePreorder(N, i, FALSE) = (IF IsNormal(N, i) THEN ReversePreorder(N, i) ELSE Tail(Rev(SelectSeq(SubSeq(AllOrder(N, i), 1, Pos(AllOrder(N, i), i)), LAMBDA x : IsNormal(N, x) \/ x = i))))
    /\ L2ReversePreorder(N, i, TRUE) = AllReversePreorder(N, i)
    /\ IsNormal(N, i) => L2Preceding(N, i) = Preceding(N, i)
=============================================================================
