------------------------------- MODULE MCHtml -------------------------------
(***************************************************************************)
(* Bounded-exhaustive generator for C19: trees  Top / ( Child[@attr] /     *)
(* text , Sibling )  over element-name classes (void, void in upper case,  *)
(* phrasing, formatted, block, unknown, script, svg, math) x namespaces    *)
(* (none, XHTML, MathML, SVG, foreign) x text and attribute value classes  *)
(* x root kinds (document, fragment with top-level text, detached          *)
(* element).  TLC checks on each that the expected tag sequence is         *)
(* well-bracketed and prints the forest.                                   *)
(***************************************************************************)
EXTENDS XotHtml, TLC, Json
CONSTANTS Dump, Full
Nd(k, p, c, ns, ln, t) == [k |-> k, p |-> p, c |-> c, ns |-> ns, ln |-> ln, t |-> t, u |-> "", d |-> FALSE]
Add(N, parent, nd) == [Append(N, [nd EXCEPT !.p = parent]) EXCEPT ![parent].c = Append(@, Len(N) + 1)]
AddRoot(N, nd) == Append(N, nd)
TopNames == IF Full THEN {"div", "p", "svg", "zzz", "DIV"} ELSE {"div", "svg"}
TopNs == {"", XhtmlNs, SvgNs}
ChildNames == {"br", "BR", "span", "pre", "div", "zzz", "script", "svg", "math", "img"}
ChildNs == {"", XhtmlNs, MathNs, SvgNs, "u1"}
Texts == IF Full THEN {<<>>, <<120>>, <<60, 38, 120>>, <<160, 34>>} ELSE {<<>>, <<60, 38, 120>>}
AttrVals == IF Full THEN {"-", "plain", "quoteamp", "nbsp", "bool"} ELSE {"-", "quoteamp", "bool"}
HAttrVal(v, ln) == CASE v = "plain" -> <<118>> [] v = "quoteamp" -> <<34, 38, 60, 39>> [] v = "nbsp" -> <<160>> [] OTHER -> <<100, 105, 115, 97, 98, 108, 101, 100>>
Mk(rootKind, tn, tns, cn, cns, tx, av, sib) ==
    LET N0 == IF rootKind = "elem" THEN <<>> ELSE <<Nd("doc", 0, <<>>, "", "", <<>>)>>
        N1 == IF rootKind = "frag" THEN Add(N0, 1, Nd("text", 0, <<>>, "", "", <<116, 60>>)) ELSE N0
        top == Len(N1) + 1
        N2 == IF rootKind = "elem" THEN AddRoot(N1, Nd("elem", 0, <<>>, tns, tn, <<>>)) ELSE Add(N1, 1, Nd("elem", 0, <<>>, tns, tn, <<>>))
        c == Len(N2) + 1
        N3 == Add(N2, top, Nd("elem", 0, <<>>, cns, cn, <<>>))
        N4 == IF av = "-" THEN N3 ELSE Add(N3, c, Nd("attr", 0, <<>>, "", IF av = "bool" THEN "disabled" ELSE "title", HAttrVal(av, "")))
        N5 == IF tx = <<>> THEN N4 ELSE Add(N4, c, Nd("text", 0, <<>>, "", "", tx))
    IN IF sib THEN Add(N5, top, Nd("elem", 0, <<>>, cns, cn, <<>>)) ELSE N5
VARIABLE F
Init == \E rk \in {"doc", "frag", "elem"}, tn \in TopNames, tns \in TopNs, cn \in ChildNames, cns \in ChildNs, tx \in Texts, av \in AttrVals, sib \in BOOLEAN :
            F = [n |-> Mk(rk, tn, tns, cn, cns, tx, av, sib), cons |-> TRUE, eo |-> FALSE]
Next == UNCHANGED F
Spec == Init /\ [][Next]_F
ValidInput == StructValidCore(F.n)
DumpState == Dump => PrintT("STATE " \o ToJson(F))
=============================================================================
