------------------------------- MODULE MCParse -------------------------------
(***************************************************************************)
(* Every sequence of up to MaxToks tokens over a small alphabet that       *)
(* reaches the interesting parser states: start tags with and without      *)
(* declarations (prefixed, default, undeclaring), prefixed names with and  *)
(* without a binding, an empty-element tag with two attributes that clash  *)
(* by expanded name under some bindings, matching and mismatching end      *)
(* tags, character data, CDATA (also empty), white space, a comment.  TLC  *)
(* checks on each, for parse and parse_fragment, that the transcription of *)
(* the tree builder (XotParseL2) and Denote (L1) agree, that what is       *)
(* accepted is structurally valid with no adjacent or empty text, and that *)
(* a fragment is the wrapped document's content.                           *)
(***************************************************************************)
EXTENDS XotParseL2, XotRender, TLC
CONSTANT MaxToks

Stag(px, ln, as, empty) ==
    [k |-> "stag", px |-> px, ln |-> ln, empty |-> empty, attrs |-> as,
     parts |-> <<Lit(<<60>>), Part("ename", QName(px, ln))>> \o AttrsParts(as, 1) \o <<Lit(IF empty THEN <<47, 62>> ELSE <<62>>)>>]
Etag(px, ln) == [k |-> "etag", px |-> px, ln |-> ln, parts |-> <<Lit(<<60, 47>>), Part("ename", QName(px, ln)), Lit(<<62>>)>>]
TextTok(s) == LET ps == SpellValue(s, FALSE) IN [k |-> "text", pieces |-> ps, parts |-> <<Part("text", Spell(ps))>>]
CdataTok(s) == [k |-> "cdata", v |-> s, parts |-> <<Lit(<<60, 33, 91, 67, 68, 65, 84, 65, 91>>), Part("cdata", s), Lit(<<93, 93, 62>>)>>]
WsTok == [k |-> "ws", parts |-> <<Lit(<<32>>)>>]
CommTok == [k |-> "comm", v |-> <<120>>, parts |-> <<Lit(<<60, 33, 45, 45>>), Part("comment", <<120>>), Lit(<<45, 45, 62>>)>>]
U1 == <<117, 49>>

Alphabet ==
    { Stag("", "a", <<>>, FALSE),
      Stag("p", "a", <<AttrTok("xmlns", "p", U1)>>, FALSE),
      Stag("", "a", <<AttrTok("", "xmlns", U1)>>, FALSE),
      Stag("", "a", <<AttrTok("", "xmlns", <<>>)>>, FALSE),
      Stag("p", "a", <<>>, FALSE),
      Stag("", "b", <<>>, TRUE),
      Stag("p", "b", <<AttrTok("p", "k", <<118>>), AttrTok("q", "k", <<119>>), AttrTok("xmlns", "q", U1)>>, TRUE),
      Stag("", "b", <<AttrTok("xml", "id", <<32, 105>>)>>, TRUE),
      Etag("", "a"), Etag("p", "a"),
      TextTok(<<120>>), CdataTok(<<121>>), CdataTok(<<>>), WsTok, CommTok }

RECURSIVE Seqs(_)
Seqs(n) == IF n = 0 THEN {<<>>} ELSE LET s == Seqs(n - 1) IN s \cup {Append(t, a) : t \in {u \in s : Len(u) = n - 1}, a \in Alphabet}

VARIABLES toks, first
vars == <<toks, first>>
\* two steps so that TLC's workers share the work: the first token, then the rest
Init == toks = <<>> /\ first \in Alphabet
Next == /\ toks = <<>>
        /\ first' = first
        /\ \E t \in Seqs(MaxToks - 1) : toks' = <<first>> \o t
Spec == Init /\ [][Next]_vars

Agree == \A mode \in {"doc", "frag"} : L2ParseRefines(toks, mode)
AcceptedIsSound ==
    \A mode \in {"doc", "frag"} :
        LET d == Denote(toks, mode) IN
        d.wf => /\ StructValidCore(d.N) /\ NoAdjacentText(d.N)
                /\ \A i \in 1..Len(d.N) : d.N[i].k = "text" => d.N[i].t # <<>>
                /\ mode = "doc" => Representable(d.N, 1)
\* parse_fragment(t) is the content of parse(<w> t </w>)
Wrapped == <<Stag("", "a", <<>>, FALSE)>> \o toks \o <<Etag("", "a")>>
FragmentIsWrappedContent ==
    LET f == Denote(toks, "frag")  w == Denote(Wrapped, "doc") IN
    /\ f.wf = w.wf
    /\ f.wf => [j \in 1..Len(NormKids(f.N, 1)) |-> CanonD(f.N, NormKids(f.N, 1)[j])]
                 = [j \in 1..Len(NormKids(w.N, 2)) |-> CanonD(w.N, NormKids(w.N, 2)[j])]
=============================================================================
