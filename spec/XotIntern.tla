------------------------------ MODULE XotIntern ------------------------------
(***************************************************************************)
(* L1 of the interning tables (C08): names (local name + namespace),       *)
(* namespaces and prefixes are registered into three append-only tables;   *)
(* an id IS the position of first registration.  A key is a record         *)
(* [s, k, ns]: the string s, or for "bulk" keys the k-th member s{k} of    *)
(* the family s (k >= 0; k = -1 for plain keys), ns = namespace key of a   *)
(* name ("" otherwise).  The table is kept as                              *)
(*    plain : sequence of [key, id]   (registered one by one)              *)
(*    bulk  : sequence of [s, ns, lo, hi, base]  (s{lo}..s{hi-1} fresh,    *)
(*            registered in order, ids base .. base + hi - lo - 1)         *)
(*    n     : number of ids issued                                         *)
(* so that histories with > 2^16 registrations stay cheap to validate.     *)
(* L2 (id width W): id = position mod W - TLC shows Injective fails at the *)
(* W+1st registration (MCIntern).                                          *)
(***************************************************************************)
EXTENDS Integers, Sequences, FiniteSets

EmptyTable == [plain |-> <<>>, bulk |-> <<>>, n |-> 0]

InBulk(t, key) == {j \in 1..Len(t.bulk) : t.bulk[j].s = key.s /\ t.bulk[j].ns = key.ns /\ key.k >= t.bulk[j].lo /\ key.k < t.bulk[j].hi}
InPlain(t, key) == {j \in 1..Len(t.plain) : t.plain[j].key = key}

\* id of a key, or -1
IdOf(t, key) ==
    IF InPlain(t, key) # {} THEN t.plain[CHOOSE j \in InPlain(t, key) : TRUE].id
    ELSE IF InBulk(t, key) # {} THEN LET b == t.bulk[CHOOSE j \in InBulk(t, key) : TRUE] IN b.base + (key.k - b.lo)
    ELSE 0 - 1

Register(t, key) ==
    IF IdOf(t, key) >= 0 THEN [t |-> t, id |-> IdOf(t, key)]
    ELSE [t |-> [t EXCEPT !.plain = Append(@, [key |-> key, id |-> t.n]), !.n = t.n + 1], id |-> t.n]

\* register s{lo} .. s{hi-1}, all fresh (the driver guarantees freshness of the family range)
RegisterBulk(t, s, ns, lo, hi) ==
    [t EXCEPT !.bulk = Append(@, [s |-> s, ns |-> ns, lo |-> lo, hi |-> hi, base |-> t.n]), !.n = t.n + (hi - lo)]

\* L1 invariants (checked by TLC in MCIntern on all small histories)
AllKeys(t) == {t.plain[j].key : j \in 1..Len(t.plain)}
    \cup UNION {{[s |-> t.bulk[j].s, k |-> k, ns |-> t.bulk[j].ns] : k \in t.bulk[j].lo..(t.bulk[j].hi - 1)} : j \in 1..Len(t.bulk)}
Injective(t) == \A a, b \in AllKeys(t) : a # b => IdOf(t, a) # IdOf(t, b)
Dense(t) == {IdOf(t, a) : a \in AllKeys(t)} = 0..(t.n - 1)

\* L2: ids truncated to a width of W values
IdOfW(t, key, W) == IF IdOf(t, key) < 0 THEN 0 - 1 ELSE IdOf(t, key) % W
InjectiveW(t, W) == \A a, b \in AllKeys(t) : a # b => IdOfW(t, a, W) # IdOfW(t, b, W)
=============================================================================
