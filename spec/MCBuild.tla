------------------------------- MODULE MCBuild -------------------------------
(***************************************************************************)
(* C20, stepwise route: every order of creation and attachment calls that  *)
(* can build a target document D - top-down or bottom-up, children         *)
(* attached left-to-right by append, right-to-left by prepend, or relative *)
(* to an already attached neighbour by insert_before / insert_after,       *)
(* declarations and attributes set in order - as behaviours of the L1      *)
(* forest machine (XotForest effects, text consolidation included).        *)
(* TLC checks CONFLUENCE: every complete behaviour ends in a forest whose  *)
(* tree has exactly the shape of D; and it prints every complete           *)
(* behaviour as a program of public calls that the harness executes on the *)
(* real crate.                                                             *)
(*                                                                         *)
(* The target is a forest D (XotBase records) whose node 1 is the document *)
(* node; attribute / namespace nodes of D are realised by set_attribute /  *)
(* set_namespace calls on their element, in D's order.                     *)
(***************************************************************************)
EXTENDS XotForest, TLC, Json

CONSTANTS Target, Dump

Nd(k, p, c, ns, ln, t, u) == [k |-> k, p |-> p, c |-> c, ns |-> ns, ln |-> ln, t |-> t, u |-> u, d |-> FALSE]
\* target 1: <!--k--><a xmlns:p="u1" b="v">x<p:c/>y</a><?t?>      target 2: <a><b/>x<c>y</c></a>     target 3: <a b="1" c="2"><b/><b/></a>   (target 4 below)
Targets ==
    << << Nd("doc", 0, <<2, 3, 9>>, "", "", <<>>, ""), Nd("comm", 1, <<>>, "", "", <<107>>, ""),
          Nd("elem", 1, <<4, 5, 6, 7, 8>>, "", "a", <<>>, ""), Nd("nsn", 3, <<>>, "", "p", <<>>, "u1"), Nd("attr", 3, <<>>, "", "b", <<118>>, ""),
          Nd("text", 3, <<>>, "", "", <<120>>, ""), Nd("elem", 3, <<>>, "u1", "c", <<>>, ""), Nd("text", 3, <<>>, "", "", <<121>>, ""),
          Nd("pi", 1, <<>>, "", "t", <<>>, "") >>,
       << Nd("doc", 0, <<2>>, "", "", <<>>, ""), Nd("elem", 1, <<3, 4, 5>>, "", "a", <<>>, ""), Nd("elem", 2, <<>>, "", "b", <<>>, ""),
          Nd("text", 2, <<>>, "", "", <<120>>, ""), Nd("elem", 2, <<6>>, "", "c", <<>>, ""), Nd("text", 5, <<>>, "", "", <<121>>, "") >>,
       << Nd("doc", 0, <<2>>, "", "", <<>>, ""), Nd("elem", 1, <<3, 4, 5, 6>>, "", "a", <<>>, ""), Nd("attr", 2, <<>>, "", "b", <<49>>, ""),
          Nd("attr", 2, <<>>, "", "c", <<50>>, ""), Nd("elem", 2, <<>>, "", "b", <<>>, ""), Nd("elem", 2, <<>>, "", "b", <<>>, "") >>,
       \* target 4: <!--k--><a b="v">x</a><?t?>
       << Nd("doc", 0, <<2, 3, 6>>, "", "", <<>>, ""), Nd("comm", 1, <<>>, "", "", <<107>>, ""), Nd("elem", 1, <<4, 5>>, "", "a", <<>>, ""),
          Nd("attr", 3, <<>>, "", "b", <<118>>, ""), Nd("text", 3, <<>>, "", "", <<120>>, ""), Nd("pi", 1, <<>>, "", "t", <<>>, "") >>,
       \* target 5: <!--k--><?t?><a/><!--m--><?u?>   (two leading and two trailing items)
       << Nd("doc", 0, <<2, 3, 4, 5, 6>>, "", "", <<>>, ""), Nd("comm", 1, <<>>, "", "", <<107>>, ""), Nd("pi", 1, <<>>, "", "t", <<>>, ""),
          Nd("elem", 1, <<>>, "", "a", <<>>, ""), Nd("comm", 1, <<>>, "", "", <<109>>, ""), Nd("pi", 1, <<>>, "", "u", <<>>, "") >> >>
D == Targets[Target]
TNormal == {t \in 1..Len(D) : IsNormal(D, t)}
TAbn == {t \in 1..Len(D) : ~IsNormal(D, t)}

VARIABLES F,      \* the L1 forest being built (cons = TRUE throughout)
          made,   \* target node -> built id (0 = not yet created / set)
          att,    \* set of target nodes attached to their parent
          hist    \* the program so far (sequence of call records)

Ev(op, a, ns, ln, s, px, uri) == [op |-> op, a |-> a, ns |-> ns, ln |-> ln, s |-> s, px |-> px, uri |-> uri, b |-> FALSE]
Do(e) == LET outs == {o \in EnumAllowed(e, F, TRUE) : o.res = "ok"} IN
         /\ outs # {}
         /\ \E o \in outs : F' = o.n
         /\ hist' = Append(hist, e)

CreateT(t) ==
    /\ made[t] = 0 /\ t \in TNormal
    /\ LET nd == D[t]
           e == CASE nd.k = "doc" -> Ev("new_document", <<>>, "", "", <<>>, "", "")
                  [] nd.k = "elem" -> Ev("new_element", <<>>, nd.ns, nd.ln, <<>>, "", "")
                  [] nd.k = "text" -> Ev("new_text", <<>>, "", "", nd.t, "", "")
                  [] nd.k = "comm" -> Ev("new_comment", <<>>, "", "", nd.t, "", "")
                  [] OTHER -> Ev("new_pi", <<>>, "", nd.ln, <<>>, "", "")
       IN Do(e) /\ made' = [made EXCEPT ![t] = Len(F) + 1] /\ UNCHANGED att

\* declarations and attributes of an element, in D's order
\* (each kind in D's order; the two kinds interleave freely: an attribute may be set BEFORE a prefix is declared on the
\* same element - the declaration still ends up in front of the attributes, where every reader looks for it)
PrevAbn(t) == LET s == SelectSeq(AbnKids(D, D[t].p), LAMBDA x : D[x].k = D[t].k)  k == Pos(s, t) IN IF k = 1 THEN 0 ELSE s[k - 1]
SetAbn(t) ==
    /\ made[t] = 0 /\ t \in TAbn /\ made[D[t].p] # 0
    /\ PrevAbn(t) # 0 => made[PrevAbn(t)] # 0
    /\ LET e == IF D[t].k = "attr" THEN Ev("set_attribute", <<made[D[t].p]>>, D[t].ns, D[t].ln, D[t].t, "", "")
                ELSE Ev("set_namespace", <<made[D[t].p]>>, "", "", <<>>, D[t].ln, D[t].u)
       IN Do(e) /\ made' = [made EXCEPT ![t] = Len(F) + 1] /\ UNCHANGED att

Sibs(t) == NormKids(D, D[t].p)
Earlier(t) == {Sibs(t)[j] : j \in 1..(Pos(Sibs(t), t) - 1)}
Later(t) == {Sibs(t)[j] : j \in (Pos(Sibs(t), t) + 1)..Len(Sibs(t))}
AttSibs(t) == {s \in SeqRange(Sibs(t)) : s \in att}
NextT(t) == LET s == Sibs(t)  k == Pos(s, t) IN IF k = Len(s) THEN 0 ELSE s[k + 1]
PrevT(t) == LET s == Sibs(t)  k == Pos(s, t) IN IF k = 1 THEN 0 ELSE s[k - 1]

Attach(t, how) ==
    /\ t \in TNormal /\ D[t].p # 0 /\ made[t] # 0 /\ made[D[t].p] # 0 /\ t \notin att
    /\ CASE how = "append" -> AttSibs(t) = Earlier(t)
         [] how = "prepend" -> AttSibs(t) = Later(t)
         [] how = "insert_before" -> NextT(t) # 0 /\ NextT(t) \in att
         [] how = "insert_after" -> PrevT(t) # 0 /\ PrevT(t) \in att
    /\ LET a == CASE how \in {"append", "prepend"} -> <<made[D[t].p], made[t]>>
                  [] how = "insert_before" -> <<made[NextT(t)], made[t]>>
                  [] OTHER -> <<made[PrevT(t)], made[t]>>
       IN Do(Ev(how, a, "", "", <<>>, "", ""))
    /\ att' = att \cup {t} /\ UNCHANGED made

Init == F = <<>> /\ made = [t \in 1..Len(D) |-> 0] /\ att = {} /\ hist = <<>>
Next == \/ \E t \in 1..Len(D) : CreateT(t) \/ SetAbn(t)
        \/ \E t \in 1..Len(D), how \in {"append", "prepend", "insert_before", "insert_after"} : Attach(t, how)
Spec == Init /\ [][Next]_<<F, made, att, hist>>

\* with this VIEW TLC keeps one program per distinct (forest, progress) state instead of one per behaviour
Progress == <<F, made, att>>

Complete == (\A t \in 1..Len(D) : made[t] # 0) /\ att = {t \in TNormal : D[t].p # 0}
\* confluence: whatever the order, the tree built is D
Confluent == Complete => Shape(F, made[1]) = Shape(D, 1)
ValidAlways == StructValidCore(F) /\ NoAdjacentText(F)
DumpProgram == (Dump /\ Complete) => PrintT("STATE " \o ToJson([target |-> D, ops |-> hist, root |-> made[1], n |-> <<>>]))
=============================================================================
