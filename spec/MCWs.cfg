SPECIFICATION Spec
CONSTANT Dump = FALSE
INVARIANTS ValidInput RiwLaws
CHECK_DEADLOCK FALSE
