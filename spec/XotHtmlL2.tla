------------------------------ MODULE XotHtmlL2 ------------------------------
(***************************************************************************)
(* L2: how the HTML5 serializer (src/output/html5_serializer.rs) chooses   *)
(* element names and namespace declarations, transcribed as written: the   *)
(* FullnameSerializer stack of XotNsL2, the frame it pushes for a          *)
(* generated default declaration (generated_default_frames), the           *)
(* add_empty_prefix variant for an element that has declarations of its    *)
(* own, the three-way rule that decides which declarations are written,    *)
(* and no end tag for void elements.  For element-only trees it produces   *)
(* the tag tokens an HTML tokenizer would read; MCHtmlNs checks that they  *)
(* satisfy the rules of XotHtml (L2HtmlRefines), for either reading of     *)
(* "the XHTML namespace" (see the open finding K-C19).                     *)
(***************************************************************************)
EXTENDS XotHtml, XotNsL2

MustUnprefixed(ns, xns) == ns \in {xns, MathNs, SvgNs}
HasEmptyPrefix(info, ns) == LET r == ElemPfx(info, ns) IN ns # "" /\ r.ok /\ r.p = ""
AddEmptyPrefix(stack, ns) ==
    [stack EXCEPT ![Len(stack)] = SelectSeq(@, LAMBDA b : b[1] # "") \o <<<<"", ns>>>>]

HAttr(px, ln, vs) == [px |-> px, ln |-> ln, raw |-> <<>>, hasval |-> TRUE, vs |-> vs]
HTag(k, px, ln, attrs) == [k |-> k, s |-> <<>>, raw |-> FALSE, px |-> px, ln |-> ln, attrs |-> attrs, sc |-> FALSE]

\* which Prefix outputs of element i are written (render_output, Prefix arm)
DeclWritten(N, i, b, xns) ==
    ~( b[2] = XmlNs
       \/ (b[1] = "" /\ N[i].ns # b[2])
       \/ (b[1] # "" /\ MustUnprefixed(b[2], xns) /\ ~\E a \in SeqRange(AttrKids(N, i)) : N[a].ns = b[2]) )
DeclAttrs(N, top, i, xns) ==
    LET extra == IF i = top THEN SelectSeq(L2InScopeSeq(N, i), LAMBDA b : ~HasPrefix(DeclSeq(N, i), b[1])) ELSE <<>>
        all == SelectSeq(extra \o DeclSeq(N, i), LAMBDA b : DeclWritten(N, i, b, xns))
    IN [j \in 1..Len(all) |-> IF all[j][1] = "" THEN HAttr("", "xmlns", all[j][2]) ELSE HAttr("xmlns", all[j][1], all[j][2])]

HVoid(N, i, xns) == N[i].ns \in {"", xns} /\ N[i].ln \in VoidNames

\* state threaded through the walk: [toks, stack, gen, ok]
RECURSIVE HWalk(_, _, _, _, _, _), HWalkKids(_, _, _, _, _, _, _)
HWalk(N, top, i, st, xns, d) ==
    IF ~st.ok THEN st
    ELSE IF N[i].k = "doc" THEN (IF d = 0 THEN st ELSE HWalkKids(N, top, NormKids(N, i), 1, st, xns, d - 1))
    ELSE IF N[i].k # "elem" THEN st
    ELSE
        LET ns == N[i].ns
            s1 == FsPush(st.stack, DeclSeq(N, i))
            generate == MustUnprefixed(ns, xns) /\ ~HasEmptyPrefix(FsTop(s1), ns)
            s2 == IF ~generate THEN s1
                  ELSE IF DeclSeq(N, i) # <<>> THEN AddEmptyPrefix(s1, ns)
                  ELSE FsPush(s1, <<<<"", ns>>>>)
            gen2 == IF generate /\ DeclSeq(N, i) = <<>> THEN Append(st.gen, i) ELSE st.gen
            nm == IF generate THEN [ok |-> TRUE, p |-> ""] ELSE ElemPfx(FsTop(s1), ns)
            attrs == (IF generate THEN <<HAttr("", "xmlns", ns)>> ELSE <<>>) \o DeclAttrs(N, top, i, xns)
            open == [toks |-> Append(st.toks, HTag("stag", nm.p, N[i].ln, attrs)), stack |-> s2, gen |-> gen2, ok |-> nm.ok]
            inner == IF d = 0 THEN open ELSE HWalkKids(N, top, NormKids(N, i), 1, open, xns, d - 1)
        IN IF ~inner.ok THEN inner
           ELSE LET en == ElemPfx(FsTop(inner.stack), ns)
                    toks3 == IF HVoid(N, i, xns) THEN inner.toks ELSE Append(inner.toks, HTag("etag", en.p, N[i].ln, <<>>))
                    genframe == inner.gen # <<>> /\ inner.gen[Len(inner.gen)] = i
                IN [toks |-> toks3,
                    stack |-> FsPop(inner.stack, genframe \/ DeclSeq(N, i) # <<>>),
                    gen |-> IF genframe THEN SubSeq(inner.gen, 1, Len(inner.gen) - 1) ELSE inner.gen,
                    ok |-> HVoid(N, i, xns) \/ en.ok]
HWalkKids(N, top, kids, j, st, xns, d) ==
    IF j > Len(kids) THEN st ELSE HWalkKids(N, top, kids, j + 1, HWalk(N, top, kids[j], st, xns, d), xns, d)

L2Html(N, top, xns) ==
    HWalk(N, top, top,
          [toks |-> <<[k |-> "doctype", s |-> Doctype, raw |-> FALSE, px |-> "", ln |-> "", attrs |-> <<>>, sc |-> FALSE]>>,
           stack |-> <<L2InScopeSeq(N, top)>>, gen |-> <<>>, ok |-> TRUE],
          xns, Len(N))

\* the transcription writes what the rules of XotHtml demand, and leaves its stack balanced
L2HtmlRefinesAt(N, top, xns) ==
    LET r == L2Html(N, top, xns)
        lc == [i \in 1..Len(N) |-> N[i].ln]
    IN r.ok => /\ HtmlBadX(N, lc, top, r.toks, xns) = {}
               /\ r.stack = <<L2InScopeSeq(N, top)>> /\ r.gen = <<>>
=============================================================================
