----------------------------- MODULE TraceForest -----------------------------
(***************************************************************************)
(* Trace validation for engine A: every event recorded from the real xot   *)
(* crate (harness/src/forest.rs; one event per public call, logged at its  *)
(* return together with the full abstract projection of the forest) must   *)
(* be a step of L1 (XotForest).                                            *)
(*                                                                         *)
(* Rec is the ndjson trace.  Rec[i].back says how many lines back the      *)
(* event holding the pre-state is (1 inside a history; k for the k-th call *)
(* replayed from the same "reset" state); a "reset" event starts a new     *)
(* episode and carries the full initial state.                             *)
(*                                                                         *)
(* The behaviour  i = 0, 1, 2, ... Len(Rec)  consumes one event per step;  *)
(* the judgement of event i is evaluated as a state invariant and never    *)
(* stops TLC: each rejected event is PRINTED as                            *)
(*    <<"REJECT", i, property, op, detail, known-finding-id>>              *)
(* so that one run reports every deviation; /verif/lib turns lines whose   *)
(* known-finding-id is empty into VIOLATION and the others into            *)
(* KNOWN-FINDING.  Each property has its own monitor (DESIGN.md section 3, *)
(* rule 4): C04 looks only at the logged states, C06 only at refused and   *)
(* panicking calls, C05 (and C11/C12/C18/C10/C15 for their calls) only at  *)
(* successful calls inside the documented precondition.                    *)
(***************************************************************************)
EXTENDS XotKnown, XotSerial, TLC, Json, IOUtils

Rec == ndJsonDeserialize(IOEnv.TRACE)
OpenKnown == LET ks == JsonDeserialize(IOEnv.KNOWN) IN {ks[j] : j \in 1..Len(ks)}

VARIABLE i

PreOf(j) == Rec[j - Rec[j].back].post

Outcome(e) == [res |-> e.res, n |-> IF e.op = "dedup2" /\ e.res = "ok" THEN e.mid.n ELSE e.post.n, ret |-> e.ret, rv |-> e.rv, has |-> e.has, rvs |-> e.rvs]

\* which property a rejected successful call is charged to
PropsOfOp(op) ==
    CASE op \in {"clone_node", "clone_with_prefixes"} -> {"C12", "C05"}
      [] op \in {"riw", "riw2"} -> {"C18"}
      [] op = "clone_store" -> {"C12"}
      [] op = "cmp" -> {"C10"}
      [] op \in {"dedup", "dedup2"} -> {"C15"}
      [] op \in {"parse", "parse_fragment"} -> {"C04"}
      [] op \in ElementOnlyOps \ {"set_element_name"} -> {"C11", "C05"}
      [] op \in {"append_attribute_node", "append_namespace_node", "append_namespace"} -> {"C11", "C05"}
      [] OTHER -> {"C05"}

Report(j, prop, detail) ==
    LET e == Rec[j]
        N == PreOf(j).n
        kid == KnownId(prop, e, N, PreOf(j).cons, detail)
        shown == IF kid \in OpenKnown THEN kid ELSE ""
    IN PrintT("REJECT " \o ToJson([i |-> j, prop |-> prop, op |-> e.op, a |-> e.a, res |-> e.res,
                                    detail |-> detail, known |-> shown]))

\* ids whose node record differs between two forests (diagnostics only)
DiffIds(A, B) ==
    {j \in 1..(IF Len(A) < Len(B) THEN Len(B) ELSE Len(A)) : j > Len(A) \/ j > Len(B) \/ A[j] # B[j]}

ExpectedDiff(e, N, cons, P) ==
    IF e.op = "cmp" /\ CmpTarget(N, A1(e)) # 0 THEN
        LET top == CmpTarget(N, A1(e)) IN
        <<"relation", "only-adds-declarations", OnlyAddsDecls(N, P, top),
          "depended-bindings-kept", OnlyAddsDecls(N, P, top) /\ DependedBindingsKept(N, P, top),
          "not-usable-afterwards", IF OnlyAddsDecls(N, P, top) THEN {x \in Named(P, top) : ~NameUsable(P, x)} ELSE {},
          "adds-declarations-XML-cannot-express", {<<P[j].ln, P[j].u>> : j \in {y \in (Len(N) + 1)..Len(P) : P[y].k = "nsn" /\ (P[y].ln \in {"xml", "xmlns"} \/ P[y].u \in {"", XmlNs})}}>>
    ELSE IF e.op \in {"dedup", "dedup2"} THEN
        LET x == A1(e) IN
        <<"relation", "only-removes-declarations-of-the-subtree", OnlyRemovesDecls(N, P, x),
          "names-no-longer-usable", IF OnlyRemovesDecls(N, P, x) THEN {nm \in Named(N, x) : NameUsable(N, nm) /\ ~NameUsable(P, nm)} ELSE {},
          "names-no-longer-usable-within-the-subtree-itself (a declaration was judged superfluous because of a binding outside the subtree)",
          IF OnlyRemovesDecls(N, P, x) /\ N[x].k = "elem" /\ N[x].p # 0 THEN {nm \in Named(N, x) : NameUsable(CutAt(N, x), nm) /\ ~NameUsable(CutAt(P, x), nm)} ELSE {}>>
    ELSE IF e.op \in RelationalOps THEN <<"relation">>
    ELSE LET same == {o \in EnumAllowed(e, N, cons) : o.res = e.res} IN
         IF same = {} THEN <<"res-not-allowed", {o.res : o \in EnumAllowed(e, N, cons)}>>
         ELSE LET o == CHOOSE o \in same : TRUE IN
              <<"differs-at", DiffIds(o.n, P), "ret", o.ret, e.ret, "rv", o.rv, o.has, o.rvs>>

\* --------------------------------------------------------------- C04 monitor
C04State(j) ==
    LET P == Rec[j].post.n
        sd == StructDefect(P)
    IN /\ sd # "none" => Report(j, "C04", <<"struct", sd>>)
       /\ (sd = "none" /\ ~Rec[j].post.eo /\ ~NoAdjacentText(P)) => Report(j, "C04", <<"adjacent-text">>)
       /\ Rec[j].post.rs # <<>> => Report(j, "C04", <<"parentless-node-has-siblings", Rec[j].post.rs>>)
       /\ Rec[j].post.bad # "" => Report(j, "C04", <<"unprojectable", Rec[j].post.bad>>)
       /\ (\E q \in 1..Len(Rec[j].post.xid) : Rec[j].post.xid[q][4] \/ Rec[j].post.xid[q][3] = 0
                                                \/ (Rec[j].post.xid[q][3] <= Len(P) /\ P[Rec[j].post.xid[q][3]].k = "rm"))
             => Report(j, "C04", <<"xml_id_node hands out a removed node", Rec[j].post.xid>>)
       \* a document that this very call created (a clone) is made of new nodes only: what its xml:id index hands out lies
       \* inside it (C12: "shares nothing with the source")
       /\ (Rec[j].op \in {"clone_node", "clone_with_prefixes"} /\ sd = "none"
            /\ \E q \in 1..Len(Rec[j].post.xid) :
                  LET dq == Rec[j].post.xid[q][1]  fq == Rec[j].post.xid[q][3] IN
                  dq > Len(PreOf(j).n) /\ dq <= Len(P) /\ fq >= 1 /\ fq <= Len(P) /\ fq \notin Subtree(P, dq))
             => Report(j, "C12", <<"xml_id_node of the clone hands out a node outside the clone", Rec[j].post.xid>>)

C04Step(j) ==
    LET N == PreOf(j).n  P == Rec[j].post.n
        m == IF Len(N) < Len(P) THEN Len(N) ELSE Len(P)
        resurrected == {x \in 1..m : N[x].k = "rm" /\ P[x].k # "rm"}
        rekinded == {x \in 1..m : N[x].k # "rm" /\ P[x].k # "rm" /\ N[x].k # P[x].k}
    IN /\ Len(P) < Len(N) => Report(j, "C04", <<"handles-lost">>)
       /\ resurrected # {} => Report(j, "C04", <<"removed-handle-live-again", resurrected>>)
       /\ rekinded # {} => Report(j, "C04", <<"kind-changed", rekinded>>)

\* ------------------------------------------------------- C05 / C06 monitors
JudgeCall(j) ==
    LET e == Rec[j]
        pre == PreOf(j)
        N == pre.n
        cons == pre.cons
        P == e.post.n
        o == Outcome(e)
        prevSameDedup == /\ e.op = "dedup" /\ e.back = 1 /\ Rec[j - 1].op = "dedup"
                         /\ Rec[j - 1].a = e.a /\ Rec[j - 1].res = "ok"
        docPanic == e.op \in ElementOnlyOps /\ N[A1(e)].k # "elem"
    IN IF e.res = "err" THEN
           (P # N => Report(j, "C06", <<"refused-but-changed", DiffIds(N, P)>>))
       ELSE IF e.res = "panic" THEN
           /\ ~docPanic => Report(j, "C06", <<"panic">>)
           /\ (docPanic /\ P # N) => Report(j, "C06", <<"documented-panic-but-changed", DiffIds(N, P)>>)
       ELSE IF Accepts(e, N, cons, o, prevSameDedup) THEN TRUE
       ELSE IF InDomain(e, N, cons) THEN
           \A prop \in PropsOfOp(e.op) : Report(j, prop, ExpectedDiff(e, N, cons, P))
       ELSE Report(j, "X00", <<"accepted-outside-precondition">>)

\* --------------------------------------------------------------- C11 monitor
ViewKeys == << <<"", "a">>, <<"", "b">>, <<"u1", "a">>, <<"u1", "b">>, <<XmlNs, "space">> >>
ViewPfx == <<"", "p", "q">>

AttrViewBad(N, x, v) ==
    LET A == AttrKids(N, x)
        keys == [q \in 1..Len(A) |-> <<N[A[q]].ns, N[A[q]].ln>>]
        vals == [q \in 1..Len(A) |-> N[A[q]].t]
        pairs == [q \in 1..Len(A) |-> <<keys[q], vals[q]>>]
        chk(name, ok) == IF ok THEN {} ELSE {name}
        hit(k) == Lookup(N, x, "attr", k)
    IN chk("len", v.len = Len(A)) \cup chk("is_empty", v.empty = (Len(A) = 0))
       \cup chk("keys", v.keys = keys) \cup chk("values", v.vals = vals) \cup chk("nodes", v.nodes = A)
       \cup chk("iter", v.iter = pairs) \cup chk("to_vec", v.vec = pairs)
       \cup chk("to_hashmap", {<<v.hm[q][1], v.hm[q][2], v.hm[q][3]>> : q \in 1..Len(v.hm)} = {<<keys[q][1], keys[q][2], vals[q]>> : q \in 1..Len(A)} /\ Len(v.hm) = Len(A))
       \cup UNION {chk("contains_key/get/get_node",
                        LET h == hit(ViewKeys[q]) IN
                        v.get[q] = <<h # 0, h # 0, IF h = 0 THEN <<>> ELSE N[h].t, h>>) : q \in 1..Len(ViewKeys)}

NsViewBad(N, x, v) ==
    LET A == NsKids(N, x)
        keys == [q \in 1..Len(A) |-> <<"", N[A[q]].ln>>]
        vals == [q \in 1..Len(A) |-> N[A[q]].u]
        pairs == [q \in 1..Len(A) |-> <<keys[q], vals[q]>>]
        chk(name, ok) == IF ok THEN {} ELSE {name}
        hit(p) == Lookup(N, x, "nsn", <<"", p>>)
    IN chk("len", v.len = Len(A)) \cup chk("is_empty", v.empty = (Len(A) = 0))
       \cup chk("keys", v.keys = keys) \cup chk("values", v.vals = vals) \cup chk("nodes", v.nodes = A)
       \cup chk("iter", v.iter = pairs) \cup chk("to_vec", v.vec = pairs)
       \cup chk("to_hashmap", {<<v.hm[q][1], v.hm[q][2]>> : q \in 1..Len(v.hm)} = {<<keys[q][2], vals[q]>> : q \in 1..Len(A)} /\ Len(v.hm) = Len(A))
       \cup UNION {chk("contains_key/get/get_node",
                        LET h == hit(ViewPfx[q]) IN
                        v.get[q] = <<h # 0, h # 0, IF h = 0 THEN "" ELSE N[h].u, h>>) : q \in 1..Len(ViewPfx)}

\* the serialiser lists this element's own declarations and then its attributes, each in map order
SerOrderBad(N, x, outs) ==
    LET own == [q \in 1..Len(NsKids(N, x)) |-> N[NsKids(N, x)[q]].ln]
        pf == SelectSeq(outs, LAMBDA o : o[1] = "pfx" /\ Has(own, o[3]))
        at == SelectSeq(outs, LAMBDA o : o[1] = "attr")
        firstAttr == {q \in 1..Len(outs) : outs[q][1] = "attr"}
        lastPfx == {q \in 1..Len(outs) : outs[q][1] = "pfx"}
    IN ~( /\ [q \in 1..Len(pf) |-> pf[q][3]] = own
          /\ [q \in 1..Len(at) |-> <<at[q][2], at[q][3]>>] = [q \in 1..Len(AttrKids(N, x)) |-> <<N[AttrKids(N, x)[q]].ns, N[AttrKids(N, x)[q]].ln>>]
          /\ \A a \in firstAttr, p \in lastPfx : p < a )

C11Views(j) ==
    LET e == Rec[j]  N == e.post.n
        bad == UNION {
                 {<<x, "attributes()", f>> : f \in AttrViewBad(N, x, e.views[x].aro)}
                 \cup {<<x, "attributes_mut()", f>> : f \in AttrViewBad(N, x, e.views[x].amu)}
                 \cup {<<x, "namespaces()", f>> : f \in NsViewBad(N, x, e.views[x].nro)}
                 \cup {<<x, "namespaces_mut()", f>> : f \in NsViewBad(N, x, e.views[x].nmu)}
                 \cup (IF SerOrderBad(N, x, e.views[x].outs) THEN {<<x, "serialisation", "order">>} ELSE {})
               : x \in {y \in 1..Len(N) : y <= Len(e.views) /\ N[y].k = "elem" /\ e.views[y].live}}
    IN bad # {} => Report(j, "C11", <<"views", bad>>)

\* --------------------------------------------------------------- C12 monitor (Xot::clone)
C12Twin(j) ==
    LET e == Rec[j]  pre == PreOf(j)  post == e.post IN
    /\ (e.op = "clone_store" /\ e.res = "ok" /\ ~(post.tw.has /\ post.tw.n = pre.n /\ post.n = pre.n))
          => Report(j, "C12", <<"cloned store differs from its source", DiffIds(post.tw.n, pre.n)>>)
    \* ... and its xml:id index answers like the source's (same documents, same values, same nodes)
    /\ (e.op = "clone_store" /\ e.res = "ok" /\ post.tw.has
          /\ {<<post.tw.xid[q][1], post.tw.xid[q][2], post.tw.xid[q][3]>> : q \in 1..Len(post.tw.xid)}
               # {<<pre.xid[q][1], pre.xid[q][2], pre.xid[q][3]>> : q \in 1..Len(pre.xid)})
          => Report(j, "C12", <<"the xml:id index of the cloned store differs from the source's", post.tw.xid, pre.xid>>)
    /\ (e.op = "clone_store" /\ e.res = "ok"
          /\ {<<post.xid[q][1], post.xid[q][2], post.xid[q][3]>> : q \in 1..Len(post.xid)}
               # {<<pre.xid[q][1], pre.xid[q][2], pre.xid[q][3]>> : q \in 1..Len(pre.xid)})
          => Report(j, "C12", <<"the xml:id index changed across Xot::clone", post.xid, pre.xid>>)
    /\ (e.op # "clone_store" /\ pre.tw.has /\ post.tw.has
          /\ SubSeq(post.tw.n, 1, Len(pre.tw.n)) # pre.tw.n)
          => Report(j, "C12", <<"a call on one store changed the other", DiffIds(SubSeq(post.tw.n, 1, Len(pre.tw.n)), pre.tw.n)>>)

\* --------------------------------------------------------------- C10 / C15 serialisation clauses
SerOk(o) == o.has /\ o.res = "ok" /\ o.re = "ok"
ReRootOf(N, o) == IF N[o.root].k = "doc" THEN o.reroot ELSE DocumentElement(o.retree.n, o.reroot)
ReparsesEqual(N, o) == ReRootOf(N, o) # 0 /\ Canon(N, o.root, "all", "exact") = Canon(o.retree.n, ReRootOf(N, o), "all", "exact")

SerClauses(j) ==
    LET e == Rec[j]  N == PreOf(j).n  P == e.post.n IN
    /\ (e.op = "cmp" /\ e.res = "ok" /\ e.spost.has /\ Representable(P, e.spost.root) /\ ~(SerOk(e.spost) /\ ReparsesEqual(P, e.spost)))
          => Report(j, "C10", <<"after create_missing_prefixes the tree does not serialise / reparse deep-equal", e.spost.res, e.spost.re>>)
    /\ (e.op = "dedup2" /\ e.res = "ok" /\ e.post.n # e.mid.n)
          => Report(j, "C15", <<"a second deduplicate_namespaces removed something", DiffIds(e.mid.n, e.post.n)>>)
    /\ (e.op \in {"dedup", "dedup2"} /\ e.res = "ok" /\ e.spre.has /\ SerOk(e.spre) /\ ReparsesEqual(N, e.spre)
           /\ ~(SerOk(e.spost) /\ ReparsesEqual(N, [e.spost EXCEPT !.root = e.spre.root])))
          => Report(j, "C15", <<"a tree that serialised before deduplicate_namespaces does not any more / reparses differently", e.spost.res, e.spost.re>>)

Judge(j) ==
    LET e == Rec[j] IN
    IF e.op = "reset" THEN C04State(j)
    ELSE LET pre == PreOf(j) IN
         \* a corrupt pre-state was reported when it arose; L1 says nothing about calls on corrupt forests
         IF StructDefect(pre.n) # "none" THEN TRUE
         ELSE /\ C04State(j)
              /\ C04Step(j)
              /\ (StructDefect(e.post.n) = "none" /\ e.views # <<>>) => C11Views(j)
              /\ StructDefect(e.post.n) = "none" => C12Twin(j)
              /\ StructDefect(e.post.n) = "none" => SerClauses(j)
              /\ (StructDefect(e.post.n) \in {"none", "ns-attr-child-order", "kind-rules", "duplicate-key"}
                    /\ e.post.bad = "" => JudgeCall(j))
              /\ (e.post.cons # (IF e.op = "set_cons" THEN e.b ELSE pre.cons)
                    => Report(j, "C05", <<"consolidation-flag">>))

Init == i = 0
Next == i < Len(Rec) /\ i' = i + 1
Spec == Init /\ [][Next]_i

Judged == i = 0 \/ Judge(i)

\* all events were consumed (TLC's diameter counts the initial state)
Consumed == TLCGet("stats").diameter = Len(Rec) + 1 \/ PrintT(<<"NOTCONSUMED", TLCGet("stats").diameter, Len(Rec)>>)
=============================================================================
