------------------------------ MODULE TraceTree ------------------------------
(***************************************************************************)
(* Conformance of xot's read-only API (engine B).  Every event is one      *)
(* abstract forest, built in a real Xot through the public API, together   *)
(* with what the real traversal / axis / scope / equality calls returned   *)
(* for every node (harness/src/observe.rs).  TLC recomputes each answer    *)
(* with the operators of XotTree - defined from the parent/child structure *)
(* alone - and prints one REJECT line per event and property listing the   *)
(* (node, API) pairs that differ.                                          *)
(***************************************************************************)
EXTENDS XotTree, TLC, Json, IOUtils

Rec == ndJsonDeserialize(IOEnv.TRACE)
OpenKnown == LET ks == JsonDeserialize(IOEnv.KNOWN) IN {ks[j] : j \in 1..Len(ks)}

VARIABLE i

\* Named deviations (open known findings) of the read-only API: signature over the node and the API that differs.
KnownObs(prop, N, x, f) ==
    LET kid ==
        IF prop = "C09" /\ f \in {"full_name", "name_ref", "node_name_ref"} /\ N[x].k = "elem" /\ N[x].ns = ""
              /\ (\E b \in InScope(N, x) : b[1] = "")
        THEN "K-C09-unprefixed-name-under-default-namespace"
        ELSE ""
    IN IF kid \in OpenKnown THEN kid ELSE ""

\* detail: set of <<node (or pair), API>>; every entry is tagged with the known finding it matches ("" = none)
Report(j, prop, detail) ==
    LET N == Rec[j].post.n
        tagged == {<<d, IF Len(d) = 2 THEN KnownObs(prop, N, d[1], d[2]) ELSE "">> : d \in detail}
        unknown == {t \in tagged : t[2] = ""}
    IN PrintT("REJECT " \o ToJson([i |-> j, prop |-> prop, op |-> "observe", a |-> <<>>, res |-> "ok",
                                    detail |-> {t[1] : t \in unknown}, knowns |-> {t[2] : t \in tagged} \ {""},
                                    known |-> IF unknown = {} THEN "all-known" ELSE ""]))

Wants(e, w) == \E j \in 1..Len(e.what) : e.what[j] = w

-----------------------------------------------------------------------------
(* C07 *)
AxisNames == <<"child", "descendant", "parent", "ancestor", "following-sibling", "preceding-sibling", "following",
               "preceding", "attribute", "self", "descendant-or-self", "ancestor-or-self">>
AxisFieldsBad(N, x, o) ==
    LET ax == AxisSeq(N, x)
        normal == IsNormal(N, x)
        chk(name, ok) == IF ok THEN {} ELSE {name}
    IN chk("parent", o.par = N[x].p)
       \cup chk("children", o.ch = Children(N, x))
       \cup chk("reverse_children", o.rch = Rev(Children(N, x)))
       \cup chk("first_child", o.fc = FirstChild(N, x))
       \cup chk("last_child", o.lc = LastChild(N, x))
       \cup chk("next_sibling", o.nx = NextSib(N, x))
       \cup chk("previous_sibling", o.pv = PrevSib(N, x))
       \cup chk("following_siblings", o.fs = FollowingSiblings(N, x))
       \cup chk("preceding_siblings", o.pfs = PrecedingSiblings(N, x))
       \cup chk("ancestors", o.anc = Ancestors(N, x))
       \cup chk("descendants", o.desc = Descendants(N, x))
       \cup chk("all_descendants", o.adesc = AllDescendants(N, x))
       \cup chk("following", o.fol = Following(N, x))
       \cup chk("all_following", o.afol = AllFollowing(N, x))
       \cup chk("preceding", o.prec = Preceding(N, x))
       \cup chk("traverse", o.trav = Traverse(N, x))
       \cup chk("all_traverse", o.atrav = AllTraverse(N, x))
       \cup chk("reverse_traverse", o.rtrav = ReverseTraverse(N, x))
       \cup chk("reverse_all_traverse", o.ratrav = ReverseAllTraverse(N, x))
       \cup chk("reverse_preorder", o.rpre = ReversePreorder(N, x))
       \cup chk("all_reverse_preorder", o.arpre = AllReversePreorder(N, x))
       \cup chk("level_order", o.lvl = LevelOrder(N, x))
       \cup chk("child_index", o.ci = ChildIndex(N, x))
       \cup chk("root", o.root = Root(N, x))
       \cup chk("top_element", (N[x].k = "doc" /\ DocumentElement(N, x) = 0) \/ o.top = TopElement(N, x))
       \cup chk("document_element", N[x].k # "doc" \/ o.de = DocumentElement(N, x))
       \cup chk("attribute_nodes", o.attrn = AttrKids(N, x))
       \cup chk("NodeEdge::next(Start)", o.ens = EdgeNextStart(N, x))
       \cup chk("NodeEdge::next(End)", o.ene = EdgeNextEnd(N, x))
       \cup chk("NodeEdge::previous(Start)", o.eps = EdgePrevStart(N, x))
       \cup chk("NodeEdge::previous(End)", o.epe = EdgePrevEnd(N, x))
       \cup UNION {chk("axis:" \o AxisNames[a], (a \in {5, 6} /\ ~normal) \/ o.ax[a] = ax[a]) : a \in 1..12}
       \* the XPath laws, on what the real axis() calls returned
       \cup chk("partition/document-order law",
                (\E a \in {2, 4, 7, 8} : \E k \in 1..Len(o.ax[a]) : o.ax[a][k] \notin 1..Len(N))
                \/ PartitionLaw(N, x, o.ax[4], o.ax[2], o.ax[8], o.ax[7]))

C07Bad(e) ==
    LET N == e.post.n IN
    UNION {{<<x, f>> : f \in AxisFieldsBad(N, x, e.axes[x])} : x \in Live(N)}

\* value / type accessors: not part of a listed property, reported as notes (property tag "XAPI")
OptCps(v) == v      \* JSON null is not used: absent values are logged as [false, ...]
ApiFieldsBad(N, x, o) ==
    LET chk(name, ok) == IF ok THEN {} ELSE {name}
        k == N[x].k
        kids == NormKids(N, x)
        elems == SelectSeq(kids, LAMBDA y : N[y].k = "elem")
    IN chk("value_type", o.vt = k)
       \cup chk("is_* predicates", o.isk = <<k = "doc", k = "elem", k = "text", k = "comm", k = "pi", k = "attr", k = "nsn">>)
       \cup chk("has_document_parent", o.hdp = (N[x].p # 0 /\ N[N[x].p].k = "doc"))
       \cup chk("is_document_element", o.ide = (N[x].p # 0 /\ N[N[x].p].k = "doc" /\ k = "elem"))
       \cup chk("node_name", o.nn = IF k \in {"elem", "attr", "pi"} THEN <<TRUE, N[x].ns, N[x].ln>> ELSE <<FALSE, "", "">>)
       \cup chk("text_content_str",
                IF kids = <<>> THEN o.tcs = <<TRUE, <<>>>>
                ELSE IF Len(kids) = 1 /\ N[kids[1]].k = "text" THEN o.tcs = <<TRUE, N[kids[1]].t>>
                ELSE o.tcs = <<FALSE, <<>>>>)
       \cup chk("validate_well_formed_document",
                o.wfd = IF k # "doc" THEN "notdoc"
                        ELSE IF \E y \in SeqRange(kids) : N[y].k = "text" /\ \A z \in SeqRange(SubSeq(kids, 1, Pos(kids, y) - 1)) : N[z].k # "text" /\ TRUE
                             THEN (IF o.wfd \in {"text", "multi", "noelem"} THEN o.wfd ELSE "text")     \* which error is reported first is not specified
                        ELSE IF Len(elems) = 0 THEN "noelem" ELSE IF Len(elems) > 1 THEN "multi" ELSE "ok")
       \cup chk("namespace_declarations", [q \in 1..Len(o.decls) |-> <<o.decls[q][1], o.decls[q][2]>>] = [q \in 1..Len(NsKids(N, x)) |-> <<N[NsKids(N, x)[q]].ln, N[NsKids(N, x)[q]].u>>])
       \cup chk("prefixes", {<<o.pfxmap[q][1], o.pfxmap[q][2]>> : q \in 1..Len(o.pfxmap)} = DeclsAt(N, x))

ApiBad(e) ==
    LET N == e.post.n IN UNION {{<<x, f>> : f \in ApiFieldsBad(N, x, e.axes[x])} : x \in Live(N)}

C13SvBad(e) ==
    LET N == e.post.n IN {x \in Live(N) : N[x].k # "nsn" /\ e.axes[x].sv # StringValue(N, x)}

-----------------------------------------------------------------------------
(* C09 *)
PairSet(s) == {<<s[j][1], s[j][2]>> : j \in 1..Len(s)}

QNameOk(N, x, q) ==
    LET sc == IF ScopeElem(N, x) = 0 THEN {<<"xml", XmlNs>>} ELSE InScope(N, ScopeElem(N, x))
        cands == {b[1] : b \in sc} \cup {""}
    IN CASE q[1] = "ok" -> q[3] = N[x].ln /\ ResolveQName(N, x, q[2]) = N[x].ns
         [] q[1] = "err" -> \A p \in cands : ResolveQName(N, x, p) # N[x].ns
         [] OTHER -> FALSE

\* the other views of the name behind name_ref (src/xmlname): the reference's own strings, its owned copy (OwnedName keeps
\* the triple; equality ignores the prefix) and the way back (maybe_to_ref finds the same ids without registering)
NViewOk(N, x, q, v) ==
    q[1] = "ok" =>
        LET full == IF q[2] = "" THEN q[3] ELSE q[2] \o ":" \o q[3]
            unp == N[x].ns # "" /\ q[2] = ""
        IN /\ v.has /\ v.full = full /\ v.ns = N[x].ns
           /\ v.o = <<q[2], q[3], N[x].ns, full>>
           /\ v.unpref = unp /\ v.indef = unp /\ v.eqpx /\ v.back

ScopeFieldsBad(N, x, o, e) ==
    LET chk(name, ok) == IF ok THEN {} ELSE {name}
    IN chk("namespaces_in_scope", PairSet(o.inscope) = InScope(N, x) /\ Len(o.inscope) = Cardinality(InScope(N, x)))
       \cup UNION {chk("namespace_for_prefix:" \o e.pfx[j],
                       LET want == NsForPrefix(N, x, e.pfx[j]) IN
                       IF want = {} THEN o.nfp[j][1] = FALSE ELSE o.nfp[j][1] = TRUE /\ o.nfp[j][2] \in want)
                   : j \in 1..Len(e.pfx)}
       \cup UNION {chk("prefix_for_namespace:" \o e.uris[j],
                       e.uris[j] = "" \/
                       LET want == PrefixesFor(N, x, e.uris[j]) IN
                       IF want = {} THEN o.pfn[j][1] = FALSE ELSE o.pfn[j][1] = TRUE /\ o.pfn[j][2] \in want)
                   : j \in 1..Len(e.uris)}
       \* (judged on elements and documents: what "the subtree's names" are for other nodes is not stated)
       \cup chk("unresolved_namespaces", N[x].k \notin {"elem", "doc"} \/ {o.unres[j] : j \in 1..Len(o.unres)} = Unresolved(N, x))
       \cup chk("inherited_prefixes", N[x].k \notin {"elem", "doc"} \/ PairSet(o.inh) = Inherited(N, x))
       \cup (IF N[x].k \in {"elem", "attr"}
             THEN chk("full_name", QNameOk(N, x, o.fnm)) \cup chk("name_ref", QNameOk(N, x, o.nref))
                  \cup chk("node_name_ref", QNameOk(N, x, o.nnref))
                  \cup chk("name_ref: strings / owned copy / way back", NViewOk(N, x, o.nref, o.nview))
             ELSE {})

C09Bad(e) ==
    LET N == e.post.n IN UNION {{<<x, f>> : f \in ScopeFieldsBad(N, x, e.scope[x], e)} : x \in Live(N)}

-----------------------------------------------------------------------------
(* C13 *)
B2I(b) == IF b THEN 1 ELSE 0
EqFieldsBad(N, o, e) ==
    LET a == o.a  b == o.b
        chk(name, ok) == IF ok THEN {} ELSE {name}
    IN chk("deep_equal", o.de = DeepEqual(N, a, b))
       \cup chk("deep_equal_children", o.dec = DeepEqualChildren(N, a, b))
       \cup chk("deep_equal_xpath", o.dx = DeepEqualXPath(N, a, b, "exact"))
       \cup chk("deep_equal_xpath(case-insensitive)", o.dxci = DeepEqualXPath(N, a, b, "ci"))
       \cup chk("advanced_deep_equal(no comments)", o.adnc = AdvancedDeepEqual(N, a, b, "nocomment", "exact"))
       \cup chk("advanced_deep_equal(no PIs)", o.adnp = AdvancedDeepEqual(N, a, b, "nopi", "exact"))
       \cup chk("advanced_deep_equal(elements+text, trim)", o.adet = AdvancedDeepEqual(N, a, b, "elemtext", "trim"))
       \cup chk("advanced_deep_equal(not b)", o.adnb = AdvancedDeepEqual(N, a, b, "notb", "exact"))
       \cup chk("advanced_deep_equal(a comparison under which no two strings are equal)", o.adnv = AdvancedNever(N, a, b))
       \cup chk("shallow_equal", o.se = ShallowEqualIgnoring(N, a, b, {}))
       \cup UNION {chk("shallow_equal_ignore_attributes#" \o ToString(j),
                       o.sei[j] = B2I(ShallowEqualIgnoring(N, a, b, PairSet(e.ign[j]))))
                   : j \in 1..Len(e.ign)}

C13Bad(e) ==
    LET N == e.post.n IN UNION {{<<e.eq[j].a, e.eq[j].b, f>> : f \in EqFieldsBad(N, e.eq[j], e)} : j \in 1..Len(e.eq)}

-----------------------------------------------------------------------------
Judge(j) ==
    LET e == Rec[j] IN
    IF StructDefect(e.post.n) # "none"
    THEN \* a state built from a generated description must be valid (else the generator is wrong); a state reached by
         \* manipulation calls of the crate that is no tree any more is the crate's doing
         IF e.steps > 0 THEN Report(j, "STRUCT", {<<"after manipulation calls the forest is not structurally valid (traversals cannot describe it)", StructDefect(e.post.n), 0>>})
         ELSE Report(j, "TOOL", {<<"state is not structurally valid", StructDefect(e.post.n), 0>>})
    ELSE /\ (Wants(e, "axes") /\ C07Bad(e) # {}) => Report(j, "C07", C07Bad(e))
         /\ (Wants(e, "axes") /\ ApiBad(e) # {}) => Report(j, "XAPI", ApiBad(e))
         /\ (Wants(e, "axes") /\ C13SvBad(e) # {}) => Report(j, "C13", {<<x, "string_value">> : x \in C13SvBad(e)})
         /\ (Wants(e, "scope") /\ C09Bad(e) # {}) => Report(j, "C09", C09Bad(e))
         /\ (Wants(e, "eq") /\ C13Bad(e) # {}) => Report(j, "C13", C13Bad(e))

Init == i = 0
Next == i < Len(Rec) /\ i' = i + 1
Spec == Init /\ [][Next]_i
Judged == i = 0 \/ Judge(i)
Consumed == TLCGet("stats").diameter = Len(Rec) + 1 \/ PrintT(<<"NOTCONSUMED", TLCGet("stats").diameter, Len(Rec)>>)
=============================================================================
