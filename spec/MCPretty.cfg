SPECIFICATION Spec
CONSTANT Dump = FALSE
INVARIANTS InDomainAlways PrettyReflexive PrettyL2Refines
CHECK_DEADLOCK FALSE
