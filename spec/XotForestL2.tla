---------------------------- MODULE XotForestL2 ----------------------------
(***************************************************************************)
(* L2: the tree surgery of src/manipulation.rs transcribed the way it is   *)
(* written - structure check, early return, detach with consolidation at   *)
(* the old place, consolidation at the new place, raw arena link - over    *)
(* the raw arena primitives of indextree (detach, append, prepend,         *)
(* insert_before / insert_after, remove = splice the children in place,    *)
(* remove_subtree).  MCForest compares every L2 outcome with the set L1    *)
(* allows (L2MovesRefine) on every reachable forest.  L2 is a bug finder   *)
(* and a description of the mechanism; L1 stays the arbiter.               *)
(***************************************************************************)
EXTENDS XotTree

L2Out(res, n, ret) == [res |-> res, n |-> n, ret |-> ret]

-----------------------------------------------------------------------------
(* indextree primitives on the raw child lists                              *)

PutAt(s, k, x) == SubSeq(s, 1, k - 1) \o <<x>> \o SubSeq(s, k, Len(s))      \* x becomes s[k]
RawAppend(N, q, x) == LET D == DetachRaw(N, x) IN [D EXCEPT ![q].c = Append(@, x), ![x].p = q]
RawPrepend(N, q, x) == LET D == DetachRaw(N, x) IN [D EXCEPT ![q].c = <<x>> \o @, ![x].p = q]
RawInsertAfter(N, r, x) ==
    LET D == DetachRaw(N, x)  q == D[r].p IN [D EXCEPT ![q].c = PutAt(@, Pos(@, r) + 1, x), ![x].p = q]
RawInsertBefore(N, r, x) ==
    LET D == DetachRaw(N, x)  q == D[r].p IN [D EXCEPT ![q].c = PutAt(@, Pos(@, r), x), ![x].p = q]
RawRemoveSubtree(N, x) == FreeSet(N, Subtree(N, x))
\* NodeId::remove: the node goes, its children take its place (or become parentless)
RawRemoveSplice(N, x) ==
    LET q == N[x].p  kids == N[x].c
        M == [i \in 1..Len(N) |->
                IF i = x THEN RM
                ELSE IF Has(kids, i) THEN [N[i] EXCEPT !.p = q]
                ELSE IF i = q THEN [N[i] EXCEPT !.c = LET k == Pos(@, x) IN SubSeq(@, 1, k - 1) \o kids \o SubSeq(@, k + 1, Len(@))]
                ELSE N[i]]
    IN M

IsRemoved(N, x) == N[x].k = "rm"

-----------------------------------------------------------------------------
(* text consolidation helpers                                               *)

\* add_consolidate_text_nodes(node, prev, next): node is a detached text node about to be linked between prev and next
AddConsolidate(N, cons, node, prev, next) ==
    IF ~cons \/ N[node].k # "text" THEN [n |-> N, done |-> FALSE]
    ELSE IF prev # 0 /\ N[prev].k = "text"
         THEN [n |-> RawRemoveSplice([N EXCEPT ![prev].t = @ \o N[node].t], node), done |-> TRUE]
    ELSE IF next # 0 /\ N[next].k = "text"
         THEN [n |-> RawRemoveSplice([N EXCEPT ![next].t = N[node].t \o @], node), done |-> TRUE]
    ELSE [n |-> N, done |-> FALSE]

\* remove_consolidate_text_nodes(prev, next): next is merged into prev if both are text
RemoveConsolidate(N, cons, prev, next) ==
    IF cons /\ prev # 0 /\ next # 0 /\ N[prev].k = "text" /\ N[next].k = "text"
    THEN [n |-> RawRemoveSplice([N EXCEPT ![prev].t = @ \o N[next].t], next), done |-> TRUE]
    ELSE [n |-> N, done |-> FALSE]

-----------------------------------------------------------------------------
(* checks                                                                   *)

StructCheck(N, q, x) ==
    /\ q # 0
    /\ N[q].k \in {"elem", "doc"}
    /\ x \notin AncOrSelf(N, q)
    /\ N[x].k \notin {"doc", "attr", "nsn"}
SibCheck(N, r, x) == IsNormal(N, r) /\ StructCheck(N, N[r].p, x)

-----------------------------------------------------------------------------
(* the public calls                                                         *)

L2Detach(N, cons, x) ==
    LET prev == PrevSib(N, x)  next == NextSib(N, x) IN RemoveConsolidate(DetachRaw(N, x), cons, prev, next).n

L2Remove(N, cons, x) ==
    LET prev == PrevSib(N, x)  next == NextSib(N, x) IN RemoveConsolidate(RawRemoveSubtree(N, x), cons, prev, next).n

L2Append(N, cons, q, x) ==
    IF ~StructCheck(N, q, x) THEN L2Out("err", N, 0)
    ELSE IF LastChild(N, q) = x THEN L2Out("ok", N, 0)
    ELSE LET D == L2Detach(N, cons, x)
             a == AddConsolidate(D, cons, x, LastChild(D, q), 0)
         IN IF a.done THEN L2Out("ok", a.n, 0) ELSE L2Out("ok", RawAppend(D, q, x), 0)

L2Prepend(N, cons, q, x) ==
    IF ~StructCheck(N, q, x) THEN L2Out("err", N, 0)
    ELSE IF FirstChild(N, q) = x THEN L2Out("ok", N, 0)
    ELSE LET D == L2Detach(N, cons, x)
             a == AddConsolidate(D, cons, x, 0, FirstChild(D, q))
             abn == AbnKids(D, q)
         IN IF a.done THEN L2Out("ok", a.n, 0)
            ELSE IF abn # <<>> THEN L2Out("ok", RawInsertAfter(D, abn[Len(abn)], x), 0)
            ELSE L2Out("ok", RawPrepend(D, q, x), 0)

L2InsertAfter(N, cons, r, x) ==
    IF ~SibCheck(N, r, x) THEN L2Out("err", N, 0)
    ELSE IF r = x \/ NextSib(N, r) = x THEN L2Out("ok", N, 0)
    ELSE LET pm == PrevSib(N, x)
             D == L2Detach(N, cons, x)
         IN IF IsRemoved(D, r) /\ pm = 0 THEN L2Out("panic", N, 0)        \* previous_of_moved.unwrap()
            ELSE LET r2 == IF IsRemoved(D, r) THEN pm ELSE r
                     a == AddConsolidate(D, cons, x, r2, NextSib(D, r2))
                 IN IF a.done THEN L2Out("ok", a.n, 0) ELSE L2Out("ok", RawInsertAfter(D, r2, x), 0)

L2InsertBefore(N, cons, r, x) ==
    IF ~SibCheck(N, r, x) THEN L2Out("err", N, 0)
    ELSE IF r = x \/ PrevSib(N, r) = x THEN L2Out("ok", N, 0)
    ELSE LET D == L2Detach(N, cons, x) IN
         IF IsRemoved(D, r) THEN L2Out("panic", N, 0)                          \* would touch a removed node
         ELSE LET a == AddConsolidate(D, cons, x, PrevSib(D, r), r)
              IN IF a.done THEN L2Out("ok", a.n, 0) ELSE L2Out("ok", RawInsertBefore(D, r, x), 0)

L2Replace(N, cons, o, x) ==
    IF N[o].k = "doc" THEN L2Out("err", N, 0)
    ELSE IF o = x THEN L2Out("ok", N, 0)
    ELSE IF ~SibCheck(N, o, x) THEN L2Out("err", N, 0)
    ELSE LET op == PrevSib(N, x)  on == NextSib(N, x)
             M1 == RawRemoveSubtree(RawInsertBefore(N, o, x), o)
             M2 == IF op # 0 /\ on # 0 /\ ~IsRemoved(M1, op) /\ ~IsRemoved(M1, on) /\ NextSib(M1, op) = on
                   THEN RemoveConsolidate(M1, cons, op, on).n ELSE M1
         IN IF IsRemoved(M2, x) THEN L2Out("panic", N, 0)
            ELSE LET pn == PrevSib(M2, x)  nn == NextSib(M2, x)
                     c1 == RemoveConsolidate(M2, cons, pn, x)
                 IN IF c1.done THEN L2Out("ok", RemoveConsolidate(c1.n, cons, pn, nn).n, 0)
                    ELSE L2Out("ok", RemoveConsolidate(M2, cons, x, nn).n, 0)

RECURSIVE FreeSeq(_, _, _)
FreeSeq(N, s, j) == IF j > Len(s) THEN N ELSE FreeSeq(RawRemoveSplice(N, s[j]), s, j + 1)

L2Unwrap(N, cons, e) ==
    IF N[e].k # "elem" THEN L2Out("err", N, 0)
    ELSE LET fc == FirstChild(N, e) IN
         IF fc = 0 THEN L2Out("ok", L2Remove(N, cons, e), 0)
         ELSE LET lc == LastChild(N, e) IN
              IF N[e].p = 0 /\ fc # lc THEN L2Out("err", N, 0)
              ELSE LET M == RawRemoveSplice(FreeSeq(N, AbnKids(N, e), 1), e)
                       pn == PrevSib(M, fc)  nn == NextSib(M, lc)
                       c1 == RemoveConsolidate(M, cons, pn, fc)
                   IN IF c1.done
                      THEN IF fc = lc THEN L2Out("ok", RemoveConsolidate(c1.n, cons, pn, nn).n, 0)
                           ELSE L2Out("ok", RemoveConsolidate(c1.n, cons, lc, NextSib(c1.n, lc)).n, 0)
                      ELSE L2Out("ok", RemoveConsolidate(M, cons, lc, NextSib(M, lc)).n, 0)

L2Wrap(N, cons, x, ns, ln) ==
    IF N[x].k = "doc" \/ ~IsNormal(N, x) THEN L2Out("err", N, 0)
    ELSE IF N[x].p # 0 /\ N[N[x].p].k = "doc" /\ N[x].k # "elem" THEN L2Out("err", N, 0)
    ELSE LET w == Len(N) + 1
             N1 == Append(N, [k |-> "elem", p |-> 0, c |-> <<>>, ns |-> ns, ln |-> ln, t |-> <<>>, u |-> "", d |-> FALSE])
         IN IF N[x].p # 0 THEN
                LET q == N[x].p
                    pv == PrevSib(N, x)
                    D == DetachRaw(N1, x)
                    a == L2Append(D, cons, w, x)
                    b == IF pv # 0 THEN L2InsertAfter(a.n, cons, pv, w) ELSE L2Prepend(a.n, cons, q, w)
                IN IF a.res # "ok" \/ b.res # "ok" THEN L2Out("err", b.n, 0) ELSE L2Out("ok", b.n, w)
            ELSE LET a == L2Append(N1, cons, w, x) IN L2Out(a.res, a.n, IF a.res = "ok" THEN w ELSE 0)

-----------------------------------------------------------------------------
(* comparison with L1                                                       *)

L2Of(e, N, cons) ==
    LET x == A1(e)  y == A2(e) IN
    CASE e.op = "append" -> L2Append(N, cons, x, y)
      [] e.op = "prepend" -> L2Prepend(N, cons, x, y)
      [] e.op = "insert_after" -> L2InsertAfter(N, cons, x, y)
      [] e.op = "insert_before" -> L2InsertBefore(N, cons, x, y)
      [] e.op = "replace" -> L2Replace(N, cons, x, y)
      [] e.op = "detach" -> L2Out("ok", L2Detach(N, cons, x), 0)
      [] e.op = "remove" -> L2Out("ok", L2Remove(N, cons, x), 0)
      [] e.op = "element_unwrap" -> L2Unwrap(N, cons, x)
      [] e.op = "element_wrap" -> L2Wrap(N, cons, x, e.ns, e.ln)
L2Ops == {"append", "prepend", "insert_after", "insert_before", "replace", "detach", "remove", "element_unwrap", "element_wrap"}

\* the code's outcome is one L1 allows
L2Allowed(e, N, cons) ==
    LET o == L2Of(e, N, cons) IN
    \E a \in EnumAllowed(e, N, cons) : a.res = o.res /\ a.n = o.n /\ (e.op = "element_wrap" => a.ret = o.ret)
=============================================================================
