SPECIFICATION Spec
INVARIANT Judged
POSTCONDITION Consumed
CHECK_DEADLOCK FALSE
