------------------------------ MODULE MCIntern ------------------------------
(* All histories of registrations over a small universe of keys: L1 is an   *)
(* injective, dense, stable interning; the L2 id width W breaks injectivity *)
(* exactly when more than W keys have been registered.                      *)
EXTENDS XotIntern, TLC
CONSTANTS Strings, W, MaxOps
VARIABLES t, ops, issued     \* issued: history variable, key -> id as returned when first registered
Keys == {[s |-> s, k |-> 0 - 1, ns |-> ""] : s \in Strings} \cup {[s |-> "f", k |-> k, ns |-> ""] : k \in 0..3}
Init == t = EmptyTable /\ ops = 0 /\ issued = <<>>
Reg(key) == LET r == Register(t, key) IN
            /\ t' = r.t /\ ops' = ops + 1
            /\ issued' = IF \E j \in 1..Len(issued) : issued[j][1] = key THEN issued ELSE Append(issued, <<key, r.id>>)
Bulk == /\ \A k \in 0..3 : IdOf(t, [s |-> "f", k |-> k, ns |-> ""]) < 0 /\ t' = RegisterBulk(t, "f", "", 0, 4) /\ ops' = ops + 1
        /\ issued' = issued \o [k \in 1..4 |-> <<[s |-> "f", k |-> k - 1, ns |-> ""], t.n + k - 1>>]
Next == ops < MaxOps /\ (Bulk \/ \E key \in Keys : Reg(key))
Spec == Init /\ [][Next]_<<t, ops, issued>>
L1Injective == Injective(t) /\ Dense(t)
\* an id never changes meaning: every key still has the id it was first given
Stable == \A j \in 1..Len(issued) : IdOf(t, issued[j][1]) = issued[j][2]
\* L2 (expected to be violated as soon as t.n > W): kept as a property to demonstrate, not as an invariant of the cfg
L2InjectiveWhileSmall == t.n <= W => InjectiveW(t, W)
L2Breaks == t.n > W => ~InjectiveW(t, W)
=============================================================================
