SPECIFICATION Spec
CONSTANTS
  MaxToks = 4
INVARIANTS Agree AcceptedIsSound FragmentIsWrappedContent
CHECK_DEADLOCK FALSE
