//! Engine C (HTML5 side, C19): serialise with html5() under catch_unwind and tokenise the output with an independent,
//! total HTML tokenizer (start tags with raw attributes and self-closing flag, end tags, text, comments, bogus
//! comments / PIs, CDATA sections, doctype; raw-text mode inside script and style).  TLC judges the rules.
use crate::proj::{cps, World};
use serde_json::{json, Value as J};
use std::panic::{catch_unwind, AssertUnwindSafe};
use xot::output::html5::Parameters;
use xot::output::Indentation;

fn split_name(n: &str) -> (String, String) {
    match n.split_once(':') {
        Some((p, l)) => (p.to_string(), l.to_string()),
        None => (String::new(), n.to_string()),
    }
}

/// Total tokenizer: never fails, consumes the whole input.
pub fn tokenize(s: &str) -> Vec<J> {
    let c: Vec<char> = s.chars().collect();
    let n = c.len();
    let mut i = 0;
    let mut out = vec![];
    let mut raw_until: Option<String> = None; // inside <script> / <style>: name to look for
    let starts = |i: usize, pat: &str| -> bool {
        let p: Vec<char> = pat.chars().collect();
        i + p.len() <= n && c[i..i + p.len()].iter().zip(p.iter()).all(|(a, b)| a.to_ascii_lowercase() == b.to_ascii_lowercase())
    };
    let text_tok = |t: &[char], raw: bool| json!({"k": "text", "s": t.iter().map(|x| *x as u32).collect::<Vec<u32>>(), "raw": raw, "px": "", "ln": "", "attrs": [], "sc": false});
    while i < n {
        if let Some(name) = raw_until.clone() {
            // raw text up to </name
            let mut j = i;
            let pat = format!("</{}", name);
            while j < n && !starts(j, &pat) {
                j += 1;
            }
            if j > i {
                out.push(text_tok(&c[i..j], true));
            }
            i = j;
            raw_until = None;
            continue;
        }
        if c[i] == '<' {
            if starts(i, "<!--") {
                let mut j = i + 4;
                while j < n && !starts(j, "-->") {
                    j += 1;
                }
                out.push(json!({"k": "comment", "s": c[i + 4..j.min(n)].iter().map(|x| *x as u32).collect::<Vec<u32>>(), "raw": false, "px": "", "ln": "", "attrs": [], "sc": false}));
                i = (j + 3).min(n);
                continue;
            }
            if starts(i, "<![CDATA[") {
                let mut j = i + 9;
                while j < n && !starts(j, "]]>") {
                    j += 1;
                }
                out.push(json!({"k": "cdata", "s": c[i + 9..j.min(n)].iter().map(|x| *x as u32).collect::<Vec<u32>>(), "raw": true, "px": "", "ln": "", "attrs": [], "sc": false}));
                i = (j + 3).min(n);
                continue;
            }
            if starts(i, "<!doctype") {
                let mut j = i;
                while j < n && c[j] != '>' {
                    j += 1;
                }
                out.push(json!({"k": "doctype", "s": c[i..(j + 1).min(n)].iter().map(|x| *x as u32).collect::<Vec<u32>>(), "raw": false, "px": "", "ln": "", "attrs": [], "sc": false}));
                i = (j + 1).min(n);
                continue;
            }
            if i + 1 < n && (c[i + 1] == '?' || c[i + 1] == '!') {
                // bogus comment / processing instruction: up to the next '>'
                let mut j = i;
                while j < n && c[j] != '>' {
                    j += 1;
                }
                out.push(json!({"k": "pi", "s": c[i..(j + 1).min(n)].iter().map(|x| *x as u32).collect::<Vec<u32>>(), "raw": false, "px": "", "ln": "", "attrs": [], "sc": false}));
                i = (j + 1).min(n);
                continue;
            }
            if i + 1 < n && c[i + 1] == '/' && i + 2 < n && c[i + 2].is_ascii_alphabetic() {
                let mut j = i + 2;
                while j < n && !c[j].is_whitespace() && c[j] != '>' {
                    j += 1;
                }
                let name: String = c[i + 2..j].iter().collect();
                while j < n && c[j] != '>' {
                    j += 1;
                }
                let (px, ln) = split_name(&name);
                out.push(json!({"k": "etag", "s": [], "raw": false, "px": px, "ln": ln, "attrs": [], "sc": false}));
                i = (j + 1).min(n);
                continue;
            }
            if i + 1 < n && c[i + 1].is_ascii_alphabetic() {
                let mut j = i + 1;
                while j < n && !c[j].is_whitespace() && c[j] != '>' && c[j] != '/' {
                    j += 1;
                }
                let name: String = c[i + 1..j].iter().collect();
                let mut attrs = vec![];
                let mut sc = false;
                loop {
                    while j < n && c[j].is_whitespace() {
                        j += 1;
                    }
                    if j >= n {
                        break;
                    }
                    if c[j] == '>' {
                        j += 1;
                        break;
                    }
                    if c[j] == '/' {
                        if j + 1 < n && c[j + 1] == '>' {
                            sc = true;
                            j += 2;
                            break;
                        }
                        j += 1;
                        continue;
                    }
                    let a0 = j;
                    while j < n && !c[j].is_whitespace() && c[j] != '=' && c[j] != '>' && c[j] != '/' {
                        j += 1;
                    }
                    let an: String = c[a0..j].iter().collect();
                    while j < n && c[j].is_whitespace() {
                        j += 1;
                    }
                    let mut raw: Vec<char> = vec![];
                    let mut hasval = false;
                    if j < n && c[j] == '=' {
                        hasval = true;
                        j += 1;
                        while j < n && c[j].is_whitespace() {
                            j += 1;
                        }
                        if j < n && (c[j] == '"' || c[j] == '\'') {
                            let q = c[j];
                            j += 1;
                            let v0 = j;
                            while j < n && c[j] != q {
                                j += 1;
                            }
                            raw = c[v0..j.min(n)].to_vec();
                            j = (j + 1).min(n);
                        } else {
                            let v0 = j;
                            while j < n && !c[j].is_whitespace() && c[j] != '>' {
                                j += 1;
                            }
                            raw = c[v0..j].to_vec();
                        }
                    }
                    let (apx, aln) = split_name(&an);
                    attrs.push(json!({"px": apx, "ln": aln, "raw": raw.iter().map(|x| *x as u32).collect::<Vec<u32>>(), "vs": raw.iter().collect::<String>(), "hasval": hasval}));
                }
                let (px, ln) = split_name(&name);
                let lower = ln.to_ascii_lowercase();
                out.push(json!({"k": "stag", "s": [], "raw": false, "px": px, "ln": ln, "attrs": attrs, "sc": sc}));
                if px.is_empty() && (lower == "script" || lower == "style") && !sc {
                    raw_until = Some(lower);
                }
                i = j;
                continue;
            }
            // a lone '<' is text
        }
        let mut j = i + 1;
        while j < n && c[j] != '<' {
            j += 1;
        }
        out.push(text_tok(&c[i..j], false));
        i = j;
    }
    out
}

/// job: {"st": state, "root": id, "indent": bool, "suppress": [[ns,ln]..], "cdata": [[ns,ln]..]}
pub fn html_job(job: &J) -> J {
    let mut ev = job.clone();
    let mut w = match World::build(&job["st"]) {
        Ok(w) => w,
        Err(e) => {
            eprintln!("BUILDFAIL cannot rebuild state: {e}");
            return J::Null;
        }
    };
    let root = w.h(job["root"].as_u64().unwrap_or(1) as usize);
    let names = |w: &mut World, v: &J| -> Vec<xot::NameId> {
        v.as_array()
            .map(|a| {
                a.iter()
                    .map(|n| {
                        let ns = w.xot.add_namespace(n[0].as_str().unwrap_or(""));
                        w.xot.add_name_ns(n[1].as_str().unwrap_or(""), ns)
                    })
                    .collect()
            })
            .unwrap_or_default()
    };
    let suppress = names(&mut w, &job["suppress"]);
    let cdata = names(&mut w, &job["cdata"]);
    let indent = job["indent"].as_bool().unwrap_or(false);
    let r = catch_unwind(AssertUnwindSafe(|| {
        let h = w.xot.html5();
        let p = Parameters { indentation: if indent { Some(Indentation { suppress: suppress.clone() }) } else { None }, cdata_section_elements: cdata.clone() };
        let a = h.serialize_string(p, root);
        // the Write-based entry point and the defaults
        let mut buf: Vec<u8> = vec![];
        let p2 = Parameters { indentation: if indent { Some(Indentation { suppress: suppress.clone() }) } else { None }, cdata_section_elements: cdata.clone() };
        let b = h.serialize_write(p2, root, &mut buf).map(|_| String::from_utf8_lossy(&buf).to_string());
        (a, b)
    }));
    // the *_with_normalizer pair under NormF (crate::ser::ClassNormalizer)
    let rn = catch_unwind(AssertUnwindSafe(|| {
        let h = w.xot.html5();
        let p = Parameters { indentation: if indent { Some(Indentation { suppress: suppress.clone() }) } else { None }, cdata_section_elements: cdata.clone() };
        let a = h.serialize_string_with_normalizer(p, root, crate::ser::ClassNormalizer);
        let mut sink = crate::ser::ShortWriter { buf: vec![], step: 0 };
        let p2 = Parameters { indentation: if indent { Some(Indentation { suppress: suppress.clone() }) } else { None }, cdata_section_elements: cdata.clone() };
        let b = h.serialize_write_with_normalizer(p2, root, &mut sink, crate::ser::ClassNormalizer).map(|_| String::from_utf8_lossy(&sink.buf).to_string());
        (a, b)
    }));
    let m = ev.as_object_mut().unwrap();
    match rn {
        Err(_) => {
            m.insert("nres".into(), json!("panic"));
            m.insert("nwsame".into(), json!(true));
            m.insert("ntext".into(), json!([]));
            m.insert("ntoks".into(), json!([]));
        }
        Ok((a, b)) => {
            let same = match (&a, &b) {
                (Ok(x), Ok(y)) => x == y,
                (Err(_), Err(_)) => true,
                _ => false,
            };
            m.insert("nwsame".into(), json!(same));
            match a {
                Err(_) => {
                    m.insert("nres".into(), json!("err"));
                    m.insert("ntext".into(), json!([]));
                    m.insert("ntoks".into(), json!([]));
                }
                Ok(s) => {
                    m.insert("nres".into(), json!("ok"));
                    m.insert("ntext".into(), json!(cps(&s)));
                    m.insert("ntoks".into(), J::Array(tokenize(&s)));
                }
            }
        }
    }
    m.insert("op".into(), json!("html"));
    // ASCII-lowercased local names per node (TLA+ strings are atomic)
    let lc: Vec<String> = job["st"]["n"].as_array().map(|a| a.iter().map(|n| n["ln"].as_str().unwrap_or("").to_ascii_lowercase()).collect()).unwrap_or_default();
    m.insert("lc".into(), json!(lc));
    match r {
        Err(_) => {
            m.insert("res".into(), json!("panic"));
            m.insert("text".into(), json!([]));
            m.insert("toks".into(), json!([]));
            m.insert("wsame".into(), json!(true));
        }
        Ok((a, b)) => {
            let wsame = match (&a, &b) {
                (Ok(x), Ok(y)) => x == y,
                (Err(_), Err(_)) => true,
                _ => false,
            };
            m.insert("wsame".into(), json!(wsame));
            match a {
                Err(_) => {
                    m.insert("res".into(), json!("err"));
                    m.insert("text".into(), json!([]));
                    m.insert("toks".into(), json!([]));
                }
                Ok(s) => {
                    m.insert("res".into(), json!("ok"));
                    m.insert("text".into(), json!(cps(&s)));
                    m.insert("toks".into(), J::Array(tokenize(&s)));
                }
            }
        }
    }
    ev
}
