//! Engine C (serialiser side): build an abstract forest in a real Xot, serialise one of its trees under given
//! parameters through every entry point, reparse the output, and log everything TLC needs to judge C01, C14, C16
//! (and the serialisation clauses of C10, C11, C15): strings, token streams, output events, the reparsed tree.
use crate::proj::{cps, World};
use serde_json::{json, Value as J};
use std::panic::{catch_unwind, AssertUnwindSafe};
use xot::output::xml::{Declaration, Parameters};
use std::borrow::Cow;
use xot::output::{Indentation, NoopNormalizer, Normalizer, Output, TokenSerializeParameters};
use xot::{NameId, Node};

/// The normaliser NormF of XotSerial: a total string function that turns ordinary characters into ones that need
/// escaping ('x' -> '<', U+00E9 -> '&'), into the CDATA terminator's bracket (U+1F600 -> ']') and one character into
/// two ('y' -> "]]"). Whatever it returns has to be escaped like content that was there from the start.
pub struct ClassNormalizer;

impl Normalizer for ClassNormalizer {
    fn normalize<'a>(&self, content: Cow<'a, str>) -> Cow<'a, str> {
        if !content.chars().any(|c| matches!(c, 'x' | '\u{e9}' | '\u{1F600}' | 'y')) {
            return content;
        }
        let mut s = String::new();
        for c in content.chars() {
            match c {
                'x' => s.push('<'),
                '\u{e9}' => s.push('&'),
                '\u{1F600}' => s.push(']'),
                'y' => s.push_str("]]"),
                c => s.push(c),
            }
        }
        Cow::Owned(s)
    }
}

fn names(w: &mut World, v: &J) -> Vec<NameId> {
    v.as_array()
        .map(|a| {
            a.iter()
                .map(|n| {
                    let ns = w.xot.add_namespace(n[0].as_str().unwrap_or(""));
                    w.xot.add_name_ns(n[1].as_str().unwrap_or(""), ns)
                })
                .collect()
        })
        .unwrap_or_default()
}

fn name_pair(w: &World, n: NameId) -> (String, String) {
    let (l, ns) = w.xot.name_ns_str(n);
    (ns.to_string(), l.to_string())
}

fn out_event(w: &World, node: Node, o: &Output) -> J {
    let id = w.known(node).unwrap_or(0);
    let e = |k: &str, ns: &str, ln: &str, t: Vec<u32>, u: &str, d: bool| json!({"n": id, "k": k, "ns": ns, "ln": ln, "t": t, "u": u, "d": d});
    match o {
        Output::StartTagOpen(el) => {
            let (ns, ln) = name_pair(w, el.name());
            e("sto", &ns, &ln, vec![], "", false)
        }
        Output::StartTagClose => e("stc", "", "", vec![], "", false),
        Output::EndTag(el) => {
            let (ns, ln) = name_pair(w, el.name());
            e("et", &ns, &ln, vec![], "", false)
        }
        Output::Prefix(p, n) => e("pfx", "", w.xot.prefix_str(*p), vec![], w.xot.namespace_str(*n), false),
        Output::Attribute(name, v) => {
            let (ns, ln) = name_pair(w, *name);
            e("attr", &ns, &ln, cps(v), "", false)
        }
        Output::Text(t) => e("text", "", "", cps(t), "", false),
        Output::Comment(t) => e("comm", "", "", cps(t), "", false),
        Output::ProcessingInstruction(name, data) => {
            let (ns, ln) = name_pair(w, *name);
            e("pi", &ns, &ln, cps(data.unwrap_or("")), "", data.is_some())
        }
    }
}

fn kind_of(o: &Output) -> &'static str {
    match o {
        Output::StartTagOpen(_) => "sto",
        Output::StartTagClose => "stc",
        Output::EndTag(_) => "et",
        Output::Prefix(..) => "pfx",
        Output::Attribute(..) => "attr",
        Output::Text(_) => "text",
        Output::Comment(_) => "comm",
        Output::ProcessingInstruction(..) => "pi",
    }
}

fn str_result(r: std::thread::Result<Result<String, xot::Error>>) -> (String, Vec<u32>) {
    match r {
        Err(_) => ("panic".into(), vec![]),
        Ok(Err(_)) => ("err".into(), vec![]),
        Ok(Ok(s)) => ("ok".into(), cps(&s)),
    }
}

pub fn reparse(text: &str, frag: bool) -> (String, J, usize) {
    let mut w2 = World::new();
    let r = catch_unwind(AssertUnwindSafe(|| {
        if frag {
            w2.xot.parse_fragment(text).ok()
        } else {
            w2.xot.parse(text).ok()
        }
    }));
    match r {
        Err(_) => ("panic".into(), json!({"n": [], "cons": true, "eo": false, "rs": [], "bad": ""}), 0),
        Ok(None) => ("err".into(), json!({"n": [], "cons": true, "eo": false, "rs": [], "bad": ""}), 0),
        Ok(Some(n)) => {
            let id = w2.id_of(n);
            let t = w2.project(Some(n));
            ("ok".into(), t, id)
        }
    }
}

/// job: {"st": state, "root": id, "cdata": [[ns,ln]..], "ugt": bool, "decl": 0|1|2|3, "indent": bool, "suppress": [[ns,ln]..],
///       "frag": bool (reparse with parse_fragment), "what": [...]}
pub fn ser_job(job: &J) -> J {
    let mut ev = job.clone();
    let mut w = match World::build(&job["st"]) {
        Ok(w) => w,
        Err(e) => {
            eprintln!("BUILDFAIL cannot rebuild state: {e}");
            return J::Null;
        }
    };
    let root = w.h(job["root"].as_u64().unwrap_or(1) as usize);
    let cdata = names(&mut w, &job["cdata"]);
    let suppress = names(&mut w, &job["suppress"]);
    let ugt = job["ugt"].as_bool().unwrap_or(false);
    let indent = job["indent"].as_bool().unwrap_or(false);
    let decl = match job["decl"].as_u64().unwrap_or(0) {
        0 => None,
        1 => Some(Declaration { encoding: None, standalone: None }),
        2 => Some(Declaration { encoding: Some("UTF-8".into()), standalone: None }),
        _ => Some(Declaration { encoding: Some("UTF-8".into()), standalone: Some(true) }),
    };
    let params = || Parameters {
        indentation: if indent { Some(Indentation { suppress: suppress.clone() }) } else { None },
        cdata_section_elements: cdata.clone(),
        declaration: decl.clone(),
        doctype: None,
        unescaped_gt: ugt,
    };
    let tparams = || TokenSerializeParameters { cdata_section_elements: cdata.clone(), unescaped_gt: ugt };
    let frag = job["frag"].as_bool().unwrap_or(false);
    let m = ev.as_object_mut().unwrap();
    m.insert("op".into(), json!("ser"));
    // string entry point
    let (res, text) = str_result(catch_unwind(AssertUnwindSafe(|| w.xot.serialize_xml_string(params(), root))));
    m.insert("res".into(), json!(res));
    m.insert("text".into(), json!(text));
    // Write-based entry point
    // (through a sink that accepts a few bytes per call, as any conforming io::Write may)
    let wr = catch_unwind(AssertUnwindSafe(|| {
        let mut sink = ShortWriter { buf: vec![], step: 0 };
        w.xot.serialize_xml_write(params(), root, &mut sink).map(|_| String::from_utf8_lossy(&sink.buf).to_string())
    }));
    let (wres, wtext) = str_result(wr);
    m.insert("wres".into(), json!(wres));
    m.insert("wtext".into(), json!(wtext));
    // default entry points
    let (dres, dtext) = str_result(catch_unwind(AssertUnwindSafe(|| w.xot.to_string(root))));
    let (dwres, dwtext) = str_result(catch_unwind(AssertUnwindSafe(|| {
        let mut buf: Vec<u8> = vec![];
        w.xot.write(root, &mut buf).map(|_| String::from_utf8_lossy(&buf).to_string())
    })));
    m.insert("dres".into(), json!(dres));
    m.insert("dtext".into(), json!(dtext));
    m.insert("dwres".into(), json!(dwres));
    m.insert("dwtext".into(), json!(dwtext));
    // reparse of the string
    let (re, retree, reroot) = if res == "ok" {
        let s: String = text.iter().map(|c| char::from_u32(*c).unwrap_or('?')).collect();
        reparse(&s, frag)
    } else {
        ("na".to_string(), json!({"n": [], "cons": true, "eo": false, "rs": [], "bad": ""}), 0)
    };
    m.insert("re".into(), json!(re));
    m.insert("retree".into(), retree);
    m.insert("reroot".into(), json!(reroot));
    // output events
    let outs = catch_unwind(AssertUnwindSafe(|| w.xot.outputs(root).map(|(n, o)| out_event(&w, n, &o)).collect::<Vec<J>>()));
    m.insert("outres".into(), json!(if outs.is_ok() { "ok" } else { "panic" }));
    m.insert("outs".into(), json!(outs.unwrap_or_default()));
    // token streams (they unwrap internally: a panic is recorded, and judged only where a string exists)
    let toks = catch_unwind(AssertUnwindSafe(|| {
        w.xot
            .tokens(root, tparams(), NoopNormalizer)
            .map(|(n, o, t)| json!({"n": w.known(n).unwrap_or(0), "k": kind_of(&o), "sp": t.space, "s": cps(&t.text)}))
            .collect::<Vec<J>>()
    }));
    m.insert("tokres".into(), json!(if toks.is_ok() { "ok" } else { "panic" }));
    m.insert("toks".into(), json!(toks.unwrap_or_default()));
    let ptoks = catch_unwind(AssertUnwindSafe(|| {
        w.xot
            .pretty_tokens(root, tparams(), &suppress, NoopNormalizer)
            .map(|(n, o, t)| json!({"n": w.known(n).unwrap_or(0), "k": kind_of(&o), "sp": t.space, "s": cps(&t.text), "ind": t.indentation, "nl": t.newline}))
            .collect::<Vec<J>>()
    }));
    m.insert("ptokres".into(), json!(if ptoks.is_ok() { "ok" } else { "panic" }));
    m.insert("ptoks".into(), json!(ptoks.unwrap_or_default()));
    // the same through the *_with_normalizer entry points under NormF (only without indentation: one law at a time)
    if !indent {
        let (nres, ntext) = str_result(catch_unwind(AssertUnwindSafe(|| w.xot.serialize_xml_string_with_normalizer(params(), root, ClassNormalizer))));
        let nwr = catch_unwind(AssertUnwindSafe(|| {
            let mut sink = ShortWriter { buf: vec![], step: 1 };
            w.xot.serialize_xml_write_with_normalizer(params(), root, &mut sink, ClassNormalizer).map(|_| String::from_utf8_lossy(&sink.buf).to_string())
        }));
        let (nwres, nwtext) = str_result(nwr);
        let (nre, nretree, nreroot) = if nres == "ok" {
            let s: String = ntext.iter().map(|c| char::from_u32(*c).unwrap_or('?')).collect();
            reparse(&s, frag)
        } else {
            ("na".to_string(), json!({"n": [], "cons": true, "eo": false, "rs": [], "bad": ""}), 0)
        };
        let ntoks = catch_unwind(AssertUnwindSafe(|| {
            w.xot
                .tokens(root, tparams(), ClassNormalizer)
                .map(|(n, o, t)| json!({"n": w.known(n).unwrap_or(0), "k": kind_of(&o), "sp": t.space, "s": cps(&t.text)}))
                .collect::<Vec<J>>()
        }));
        m.insert("nres".into(), json!(nres));
        m.insert("ntext".into(), json!(ntext));
        m.insert("nwres".into(), json!(nwres));
        m.insert("nwtext".into(), json!(nwtext));
        m.insert("nre".into(), json!(nre));
        m.insert("nretree".into(), nretree);
        m.insert("nreroot".into(), json!(nreroot));
        m.insert("ntokres".into(), json!(if ntoks.is_ok() { "ok" } else { "panic" }));
        m.insert("ntoks".into(), json!(ntoks.unwrap_or_default()));
    } else {
        m.insert("nres".into(), json!("na"));
    }
    // the forest as the real Xot shows it afterwards (serialisation must not change it)
    let post = w.project(None);
    m.insert("post".into(), post);
    ev
}


/// An io::Write that takes 1 to 3 bytes per call: callers have to use write_all (or loop) to get everything out.
pub struct ShortWriter {
    pub buf: Vec<u8>,
    pub step: usize,
}

impl std::io::Write for ShortWriter {
    fn write(&mut self, data: &[u8]) -> std::io::Result<usize> {
        if data.is_empty() {
            return Ok(0);
        }
        self.step += 1;
        let n = data.len().min(1 + self.step % 3);
        self.buf.extend_from_slice(&data[..n]);
        Ok(n)
    }
    fn flush(&mut self) -> std::io::Result<()> {
        Ok(())
    }
}
