-------------------------------- MODULE MCWs --------------------------------
(***************************************************************************)
(* Bounded-exhaustive generator for C18 (remove_insignificant_whitespace): *)
(* all documents doc / d / r[xml:space=sr] / a[xml:space=sa] / K, sr, sa   *)
(* over {absent, preserve, default, other} and K over all child sequences  *)
(* of length <= 3 of {element, "x", " ", TAB LF, NBSP, comment} - text in  *)
(* every sibling arrangement (adjacent text nodes included: consolidation  *)
(* off), non-XML Unicode space, xml:space at two depths.  TLC checks on    *)
(* each that whitespace stripping is idempotent in L1 and removes only     *)
(* whitespace-only text nodes, and prints the forest.                      *)
(***************************************************************************)
EXTENDS XotForest, TLC, Json
CONSTANT Dump
Nd(k, p, c, ns, ln, t) == [k |-> k, p |-> p, c |-> c, ns |-> ns, ln |-> ln, t |-> t, u |-> "", d |-> FALSE]
SpaceVal(s) == IF s = "preserve" THEN PreserveCps ELSE IF s = "default" THEN <<100, 101, 102, 97, 117, 108, 116>> ELSE <<111>>
KidKinds == {"e", "x", "s", "w", "n", "c"}
KidSeqs == {<<>>} \cup {<<x>> : x \in KidKinds} \cup {<<x, y>> : x \in KidKinds, y \in KidKinds}
            \cup {<<x, y, z>> : x \in KidKinds, y \in KidKinds, z \in KidKinds}
Add(N, parent, nd) == [Append(N, [nd EXCEPT !.p = parent]) EXCEPT ![parent].c = Append(@, Len(N) + 1)]
KidNode(x) ==
    CASE x = "e" -> Nd("elem", 0, <<>>, "", "b", <<>>)
      [] x = "x" -> Nd("text", 0, <<>>, "", "", <<120>>)
      [] x = "s" -> Nd("text", 0, <<>>, "", "", <<32>>)
      [] x = "w" -> Nd("text", 0, <<>>, "", "", <<9, 10>>)
      [] x = "n" -> Nd("text", 0, <<>>, "", "", <<160>>)
      [] OTHER -> Nd("comm", 0, <<>>, "", "", <<107>>)
RECURSIVE AddKids(_, _, _, _)
AddKids(N, parent, ks, j) == IF j > Len(ks) THEN N ELSE AddKids(Add(N, parent, KidNode(ks[j])), parent, ks, j + 1)
Mk(sr, sa, K, tail) ==
    \* doc / d / r[xml:space=sr] / a[xml:space=sa] / K, and behind r (inside d, which has no xml:space of its own) the tail
    LET N0 == <<Nd("doc", 0, <<>>, "", "", <<>>)>>
        Nd0 == Add(N0, 1, Nd("elem", 0, <<>>, "", "d", <<>>))
        N1 == Add(Nd0, 2, Nd("elem", 0, <<>>, "", "r", <<>>))
        N2 == IF sr = "-" THEN N1 ELSE Add(N1, 3, Nd("attr", 0, <<>>, XmlNs, "space", SpaceVal(sr)))
        a == Len(N2) + 1
        N3 == Add(N2, 3, Nd("elem", 0, <<>>, "", "a", <<>>))
        N4 == IF sa = "-" THEN N3 ELSE Add(N3, a, Nd("attr", 0, <<>>, XmlNs, "space", SpaceVal(sa)))
        N5 == AddKids(N4, a, K, 1)
        \* what follows after r has closed: nothing, white space, or white space and an element holding white space -
        \* the xml:space of r and a must not reach it
        N6 == IF tail = "-" THEN N5 ELSE Add(N5, 2, Nd("text", 0, <<>>, "", "", <<32>>))
    IN IF tail # "wc" THEN N6
       ELSE LET c == Len(N6) + 1 IN Add(Add(N6, 2, Nd("elem", 0, <<>>, "", "c", <<>>)), c, Nd("text", 0, <<>>, "", "", <<10>>))
VARIABLE F
\* consolidation off, or switched on again after the (possibly adjacent) text nodes were put in place
Init == \E sr \in {"-", "preserve", "default", "other"}, sa \in {"-", "preserve", "default", "other"}, K \in KidSeqs, cons \in BOOLEAN, tail \in {"-", "w", "wc"} :
            F = [n |-> Mk(sr, sa, K, tail), cons |-> cons, eo |-> TRUE]
Next == UNCHANGED F
Spec == Init /\ [][Next]_F
ValidInput == StructValidCore(F.n)
RiwLaws ==
    \A x \in Live(F.n) : \A o \in Riw(F.n, x) :
        /\ Riw(o.n, x) = {o}                                                       \* idempotent
        /\ \A y \in Live(F.n) : o.n[y].k = "rm" => F.n[y].k = "text" /\ AllWs(F.n[y].t)  \* only whitespace-only text goes
        /\ \A y \in Live(F.n) : o.n[y].k # "rm" => [o.n[y] EXCEPT !.c = <<>>] = [F.n[y] EXCEPT !.c = <<>>]
DumpState == Dump => PrintT("STATE " \o ToJson(F))
=============================================================================
