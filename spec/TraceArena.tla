------------------------------ MODULE TraceArena ------------------------------
(***************************************************************************)
(* Judge of the slot-churn episodes of the C04 check (see MCArena): after  *)
(* any number of allocate / remove cycles a removed handle must still read *)
(* as removed, and a live one as live.  The open finding                   *)
(* K-C04-stamp-wrap-around is recognised by its signature: the first       *)
(* handle that looks live again was removed at cycle 32 767 or later (the  *)
(* stamp of the slot had reached i16::MAX); anything earlier is a          *)
(* violation.                                                              *)
(***************************************************************************)
EXTENDS Integers, Sequences, TLC, Json, IOUtils
Rec == ndJsonDeserialize(IOEnv.TRACE)
OpenKnown == LET ks == JsonDeserialize(IOEnv.KNOWN) IN {ks[j] : j \in 1..Len(ks)}
VARIABLE i
Init == i = 0
Next == i < Len(Rec) /\ i' = i + 1
Spec == Init /\ [][Next]_i
Bad(e) ==
    IF e.panic THEN "allocating or removing a node panicked"
    ELSE IF e.live_reads_removed THEN "a live node reads as removed"
    ELSE IF e.resurrected > 0 THEN "a removed handle looks live again"
    ELSE ""
KnownArena(e) == IF ~e.panic /\ ~e.live_reads_removed /\ e.resurrected > 0 /\ e.first >= 32767 THEN "K-C04-stamp-wrap-around" ELSE ""
Judged == i = 0 \/ Bad(Rec[i]) = ""
          \/ PrintT("REJECT " \o ToJson([i |-> i, prop |-> "C04", op |-> "churn", a |-> <<>>, res |-> Rec[i].kind,
                                          detail |-> <<Bad(Rec[i]), Rec[i].cycles, Rec[i].resurrected, Rec[i].first, Rec[i].aliases_live>>,
                                          known |-> IF KnownArena(Rec[i]) \in OpenKnown THEN KnownArena(Rec[i]) ELSE ""]))
Consumed == TLCGet("stats").diameter = Len(Rec) + 1 \/ PrintT(<<"NOTCONSUMED", TLCGet("stats").diameter, Len(Rec)>>)
=============================================================================
