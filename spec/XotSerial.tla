------------------------------ MODULE XotSerial ------------------------------
(***************************************************************************)
(* Serialisation as seen from the abstract forest (C01, C14, C16 and the   *)
(* serialisation clauses of C10, C11, C15):                                *)
(*  - Representable / Usable: the domain in which XML 1.0 can express a    *)
(*    tree and its names;                                                  *)
(*  - Events(N, top): the output-event stream of a subtree;                *)
(*  - Flatten / FlattenPretty: how token streams spell the strings;        *)
(*  - PrettyRelated: what indentation may add.                             *)
(***************************************************************************)
EXTENDS XotTree, XotLex

NoDoubleDash(t) == ~\E j \in 1..(Len(t) - 1) : t[j] = 45 /\ t[j + 1] = 45
NoPiEnd(t) == ~\E j \in 1..(Len(t) - 1) : t[j] = 63 /\ t[j + 1] = 62
AllChars(t) == \A j \in 1..Len(t) : IsChar(t[j])

\* what XML 1.0 can express (names are NCNames by construction of the generators)
Representable(N, top) ==
    /\ \A x \in Subtree(N, top) :
        /\ AllChars(N[x].t)
        /\ N[x].k = "text" => N[x].t # <<>> /\ ~IsText(N, PrevNorm(N, x))
        /\ N[x].k = "comm" => NoDoubleDash(N[x].t) /\ (N[x].t = <<>> \/ N[x].t[Len(N[x].t)] # 45)
        /\ N[x].k = "pi" => NoPiEnd(N[x].t) /\ N[x].ns = "" /\ (N[x].d => N[x].t # <<>> /\ N[x].t[1] \notin {32, 9, 10, 13})
        \* (a prefix other than xml bound to the XML namespace is not namespace-well-formed, but the crate reads and
        \* writes such declarations, so it is part of what it can express; the default namespace cannot be the XML one)
        /\ N[x].k = "nsn" => N[x].ln # "xml" /\ (N[x].u = XmlNs => N[x].ln # "") /\ (N[x].u = "" => N[x].ln = "")
        \* an xml:id value is normalised by every parse (xml:id 1.0, section 4): only normalised values can be expressed
        /\ (N[x].k = "attr" /\ N[x].ns = XmlNs /\ N[x].ln = "id") => NormId(N[x].t) = N[x].t
    /\ N[top].k \in {"doc", "elem"}
    /\ N[top].k = "doc" =>      \* a well-formed document
         /\ Len(SelectSeq(NormKids(N, top), LAMBDA y : N[y].k = "elem")) = 1
         /\ \A y \in SeqRange(NormKids(N, top)) : N[y].k # "text"

\* document order output events of the subtree at top
Ev(n, k, ns, ln, t, u, d) == [n |-> n, k |-> k, ns |-> ns, ln |-> ln, t |-> t, u |-> u, d |-> d]
RECURSIVE EventsB(_, _, _), EventsKids(_, _, _, _)
EventsB(N, i, d) ==
    CASE N[i].k = "doc" -> IF d = 0 THEN <<>> ELSE EventsKids(N, NormKids(N, i), 1, d - 1)
      [] N[i].k = "elem" ->
            <<Ev(i, "sto", N[i].ns, N[i].ln, <<>>, "", FALSE)>>
            \o [j \in 1..Len(NsKids(N, i)) |-> Ev(i, "pfx", "", N[NsKids(N, i)[j]].ln, <<>>, N[NsKids(N, i)[j]].u, FALSE)]
            \o [j \in 1..Len(AttrKids(N, i)) |-> Ev(i, "attr", N[AttrKids(N, i)[j]].ns, N[AttrKids(N, i)[j]].ln, N[AttrKids(N, i)[j]].t, "", FALSE)]
            \o <<Ev(i, "stc", "", "", <<>>, "", FALSE)>>
            \o (IF d = 0 THEN <<>> ELSE EventsKids(N, NormKids(N, i), 1, d - 1))
            \o <<Ev(i, "et", N[i].ns, N[i].ln, <<>>, "", FALSE)>>
      [] N[i].k = "text" -> <<Ev(i, "text", "", "", N[i].t, "", FALSE)>>
      [] N[i].k = "comm" -> <<Ev(i, "comm", "", "", N[i].t, "", FALSE)>>
      [] N[i].k = "pi" -> <<Ev(i, "pi", N[i].ns, N[i].ln, N[i].t, "", N[i].d)>>
      [] OTHER -> <<>>
EventsKids(N, kids, j, d) == IF j > Len(kids) THEN <<>> ELSE EventsB(N, kids[j], d) \o EventsKids(N, kids, j + 1, d)
Events(N, top) == EventsB(N, top, Len(N))

\* bindings the top element of a serialised subtree inherits and does not redeclare
InheritedAtTop(N, top) ==
    IF N[top].k # "elem" THEN {}
    ELSE {b \in InScope(N, top) : \A o \in DeclsAt(N, top) : o[1] # b[1]}

\* the observed event stream equals Events except that the inherited bindings of the top element are
\* listed (in any order) right after its start-tag-open event
EventsMatch(obs, N, top) ==
    LET exp == Events(N, top)
        inh == InheritedAtTop(N, top)
        k == Cardinality(inh)
    IN IF N[top].k # "elem" THEN obs = exp
       ELSE /\ Len(obs) = Len(exp) + k
            /\ obs[1] = exp[1]
            /\ {<<obs[1 + j].ln, obs[1 + j].u>> : j \in 1..k} = inh
            /\ \A j \in 1..k : obs[1 + j].k = "pfx" /\ obs[1 + j].n = top
            /\ SubSeq(obs, 2 + k, Len(obs)) = SubSeq(exp, 2, Len(exp))

\* (the normaliser NormF, NormForest and NormJudgeable are in XotTree: the HTML5 serialiser takes one too)

\* token streams
RECURSIVE Flatten(_)
Flatten(toks) ==
    IF toks = <<>> THEN <<>>
    ELSE (IF Head(toks).sp THEN <<32>> ELSE <<>>) \o Head(toks).s \o Flatten(Tail(toks))
Spaces(k) == [j \in 1..k |-> 32]
\* the indentation field counts levels; how many spaces a level is worth is the serialiser's choice (w)
RECURSIVE FlattenPrettyW(_, _)
FlattenPrettyW(toks, w) ==
    IF toks = <<>> THEN <<>>
    ELSE LET t == Head(toks) IN
         Spaces(w * t.ind) \o (IF t.sp THEN <<32>> ELSE <<>>) \o t.s \o (IF t.nl THEN <<10>> ELSE <<>>) \o FlattenPrettyW(Tail(toks), w)
PrettySpells(toks, text) == \E w \in 1..8 : FlattenPrettyW(toks, w) = text

\* C14: what indentation may add.  blocked: an ancestor-or-self has text children or is in the suppress list.
HasTextKid(N, e) == \E y \in SeqRange(NormKids(N, e)) : N[y].k = "text"
WsOnly(t) == \A j \in 1..Len(t) : t[j] \in {32, 9, 10, 13}
RECURSIVE PrettyRel(_, _, _, _, _, _, _), PrettyKids(_, _, _, _, _, _, _, _)
PrettyRel(N, e, M, f, sup, blocked, d) ==
    /\ NodeValue(N, e, "exact") = NodeValue(M, f, "exact")
    /\ DeclsAt(N, e) = DeclsAt(M, f)
    /\ LET blk == blocked \/ (N[e].k = "elem" /\ (HasTextKid(N, e) \/ <<N[e].ns, N[e].ln>> \in sup))
           may == ~blk /\ ~Preserved(N, e)
           mk == IF may THEN SelectSeq(NormKids(M, f), LAMBDA y : ~(M[y].k = "text" /\ WsOnly(M[y].t))) ELSE NormKids(M, f)
       IN /\ Len(mk) = Len(NormKids(N, e))
          /\ d = 0 \/ PrettyKids(N, NormKids(N, e), M, mk, 1, sup, blk, d - 1)
PrettyKids(N, ks, M, ms, j, sup, blocked, d) ==
    j > Len(ks) \/ (PrettyRel(N, ks[j], M, ms[j], sup, blocked, d) /\ PrettyKids(N, ks, M, ms, j + 1, sup, blocked, d))
PrettyRelated(N, top, M, mtop, sup) == PrettyRel(N, top, M, mtop, sup, FALSE, Len(N))

=============================================================================
