------------------------------ MODULE XotNsL2 ------------------------------
(***************************************************************************)
(* L2: transcriptions of the namespace machinery of the crate, written     *)
(* the way the code is written (lists with a seen set, a stack of binding  *)
(* tables, passes until nothing changes), so that TLC can compare each     *)
(* with the L1 definitions of XotForest / XotTree on every enumerated      *)
(* layout.  L2 is a bug finder and a statement of how the code works; the  *)
(* arbiter of every VIOLATION stays L1.                                    *)
(*                                                                         *)
(*   namespace_traverse / namespaces_in_scope   -> L2InScopeSeq            *)
(*   FullnameSerializer (output/fullname.rs)    -> Fi*, Fs*, ElemPfx ...   *)
(*   gen_outputs + XmlSerializer name choice    -> SerNames, Emitted       *)
(*   prefix_for_namespace                       -> L2PrefixFor             *)
(*   unresolved_namespaces                      -> L2Unresolved            *)
(*   create_missing_prefixes                    -> L2Cmp                   *)
(*   deduplicate_namespaces                     -> L2Dedup                 *)
(***************************************************************************)
EXTENDS XotTree

DeclSeq(N, i) ==
    IF N[i].k = "elem"
    THEN LET ks == NsKids(N, i) IN [j \in 1..Len(ks) |-> <<N[ks[j]].ln, N[ks[j]].u>>]
    ELSE <<>>
HasPrefix(ds, p) == \E j \in 1..Len(ds) : ds[j][1] = p

-----------------------------------------------------------------------------
(* namespace_traverse: ancestors-or-self, nearest first, a prefix is        *)
(* yielded once; xmlns="" marks the default prefix as seen and yields       *)
(* nothing; the xml binding comes last unless the prefix was seen           *)

RECURSIVE NtDecls(_, _, _, _)
NtDecls(ds, k, seen, acc) ==
    IF k > Len(ds) THEN [seen |-> seen, acc |-> acc]
    ELSE IF ds[k][1] \in seen THEN NtDecls(ds, k + 1, seen, acc)
    ELSE NtDecls(ds, k + 1, seen \cup {ds[k][1]},
                 IF ds[k][1] = "" /\ ds[k][2] = "" THEN acc ELSE Append(acc, ds[k]))
RECURSIVE NtUp(_, _, _, _, _)
NtUp(N, path, j, seen, acc) ==
    IF j > Len(path) THEN [seen |-> seen, acc |-> acc]
    ELSE LET r == NtDecls(DeclSeq(N, path[j]), 1, seen, acc) IN NtUp(N, path, j + 1, r.seen, r.acc)
L2InScopeSeq(N, i) ==
    LET r == NtUp(N, Ancestors(N, i), 1, {}, <<>>) IN
    IF "xml" \in r.seen THEN r.acc ELSE Append(r.acc, <<"xml", XmlNs>>)

\* prefix_for_namespace: same walk, first hit wins
RECURSIVE PfDecls(_, _, _, _)
PfDecls(ds, k, seen, ns) ==
    IF k > Len(ds) THEN [seen |-> seen, hit |-> "?none"]
    ELSE IF ds[k][1] \in seen THEN PfDecls(ds, k + 1, seen, ns)
    ELSE IF ds[k][2] = ns THEN [seen |-> seen, hit |-> ds[k][1]]
    ELSE PfDecls(ds, k + 1, seen \cup {ds[k][1]}, ns)
RECURSIVE PfUp(_, _, _, _, _)
PfUp(N, path, j, seen, ns) ==
    IF j > Len(path) THEN (IF "xml" \notin seen /\ ns = XmlNs THEN "xml" ELSE "?none")
    ELSE LET r == PfDecls(DeclSeq(N, path[j]), 1, seen, ns) IN
         IF r.hit # "?none" THEN r.hit ELSE PfUp(N, path, j + 1, r.seen, ns)
L2PrefixFor(N, i, ns) == PfUp(N, Ancestors(N, i), 1, {}, ns)

-----------------------------------------------------------------------------
(* FullnameSerializer: a stack of binding tables; a table is a list of      *)
(* (prefix, namespace) in definition order                                  *)

FiNew(decls, cur) == SelectSeq(cur, LAMBDA b : ~HasPrefix(decls, b[1])) \o decls
FsPush(stack, decls) == IF decls = <<>> THEN stack ELSE Append(stack, FiNew(decls, stack[Len(stack)]))
FsPop(stack, has) == IF has THEN SubSeq(stack, 1, Len(stack) - 1) ELSE stack
FsTop(stack) == stack[Len(stack)]
\* prefixes_by_namespace: latest definition first
PfxByNs(info, ns) == LET m == SelectSeq(info, LAMBDA b : b[2] = ns) IN [j \in 1..Len(m) |-> m[Len(m) + 1 - j][1]]
ElemPfx(info, ns) ==
    IF ns = "" THEN [ok |-> TRUE, p |-> ""]
    ELSE LET ps == PfxByNs(info, ns) IN
         IF ps = <<>> THEN [ok |-> FALSE, p |-> ""]
         ELSE IF Has(ps, "") THEN [ok |-> TRUE, p |-> ""] ELSE [ok |-> TRUE, p |-> ps[1]]
AttrPfx(info, ns) ==
    IF ns = "" THEN [ok |-> TRUE, p |-> ""]
    ELSE LET ps == SelectSeq(PfxByNs(info, ns), LAMBDA p : p # "") IN
         IF ps = <<>> THEN [ok |-> FALSE, p |-> ""] ELSE [ok |-> TRUE, p |-> ps[1]]
NsKnown(info, ns) == \E j \in 1..Len(info) : info[j][2] = ns

\* One walk with the serializer's stack discipline (push on start tag, pop on end tag).  visit(i, info) is collected
\* for every element at its start tag and again at its end tag; the result is [recs, stack].
RECURSIVE WalkB(_, _, _, _), WalkKids(_, _, _, _, _)
WalkB(N, i, stack, d) ==
    IF N[i].k = "elem" THEN
        LET st1 == FsPush(stack, DeclSeq(N, i))
            here == {[id |-> i, at |-> "start", info |-> FsTop(st1)]}
            k == IF d = 0 THEN [recs |-> {}, stack |-> st1] ELSE WalkKids(N, NormKids(N, i), 1, st1, d - 1)
            endrec == {[id |-> i, at |-> "end", info |-> FsTop(k.stack)]}
        IN [recs |-> here \cup k.recs \cup endrec, stack |-> FsPop(k.stack, NsKids(N, i) # <<>>)]
    ELSE IF N[i].k = "doc" /\ d > 0 THEN WalkKids(N, NormKids(N, i), 1, stack, d - 1)
    ELSE [recs |-> {}, stack |-> stack]
WalkKids(N, kids, j, stack, d) ==
    IF j > Len(kids) THEN [recs |-> {}, stack |-> stack]
    ELSE LET a == WalkB(N, kids[j], stack, d)
             b == WalkKids(N, kids, j + 1, a.stack, d)
         IN [recs |-> a.recs \cup b.recs, stack |-> b.stack]
Walk(N, top, seed) == WalkB(N, top, <<seed>>, Len(N))

\* the stack is balanced: after the walk only the seed table is left, and an end tag sees the table of its start tag
StackDiscipline(N, top, seed) ==
    LET w == Walk(N, top, seed) IN
    /\ w.stack = <<seed>>
    /\ \A r \in w.recs : r.at = "end" => [r EXCEPT !.at = "start"] \in w.recs

\* names as the XML serializer spells them when asked to serialise `top`
SerNames(N, top) ==
    LET w == Walk(N, top, L2InScopeSeq(N, top)) IN
    UNION {{[id |-> r.id, r |-> ElemPfx(r.info, N[r.id].ns)]}
           \cup {[id |-> a, r |-> AttrPfx(r.info, N[a].ns)] : a \in SeqRange(AttrKids(N, r.id))} :
           r \in {q \in w.recs : q.at = "start"}}
SerOk(N, top) == \A s \in SerNames(N, top) : s.r.ok

\* declarations written on element i (gen_edge_start + render_output: the implicit binding of the xml prefix is not written)
Emitted(N, top, i) ==
    LET extra == IF i = top THEN SelectSeq(L2InScopeSeq(N, i), LAMBDA b : ~HasPrefix(DeclSeq(N, i), b[1])) ELSE <<>>
    IN SelectSeq(extra \o DeclSeq(N, i), LAMBDA b : ~(b[1] = "xml" /\ b[2] = XmlNs))
\* what a namespace-aware reader of the emitted text has in scope at element i
RECURSIVE EmB(_, _, _, _)
EmB(N, top, i, d) ==
    LET e == Emitted(N, top, i)
        own == {e[j] : j \in 1..Len(e)}
        up == IF i = top \/ d = 0 \/ N[i].p = 0 THEN {<<"xml", XmlNs>>} ELSE EmB(N, top, N[i].p, d - 1)
    IN own \cup {b \in up : \A o \in own : o[1] # b[1]}
EmScope(N, top, i) == {b \in EmB(N, top, i, Len(N)) : ~(b[1] = "" /\ b[2] = "")}

\* the written name means the node's expanded name
Faithful(N, top, s) ==
    LET i == s.id
        sc == EmScope(N, top, ScopeElem(N, i))
        dflt == {b[2] : b \in {c \in sc : c[1] = ""}}
    IN IF N[i].k = "elem"
       THEN IF s.r.p = "" THEN (IF dflt = {} THEN N[i].ns = "" ELSE dflt = {N[i].ns})
            ELSE <<s.r.p, N[i].ns>> \in sc
       ELSE IF s.r.p = "" THEN N[i].ns = "" ELSE <<s.r.p, N[i].ns>> \in sc
\* the one way the code is known to write a name that means something else (open finding K-C10): an element in no
\* namespace, written unprefixed where a default namespace is in force
K10Shape(N, top, s) ==
    /\ N[s.id].k = "elem" /\ N[s.id].ns = "" /\ s.r.p = ""
    /\ \E b \in EmScope(N, top, s.id) : b[1] = ""

-----------------------------------------------------------------------------
(* unresolved_namespaces and create_missing_prefixes: the same walk from an *)
(* EMPTY table (not even the xml binding: see XmlSeed below)                *)

\* CONSTANT-like switch: what the two functions seed their serializer with.  <<>> transcribes the pinned code;
\* <<<<"xml", XmlNs>>>> the repaired code.
XmlSeed == <<<<"xml", XmlNs>>>>

L2Unresolved(N, x) ==
    LET w == Walk(N, x, XmlSeed) IN
    UNION {(IF N[r.id].ns # "" /\ ~NsKnown(r.info, N[r.id].ns) THEN {N[r.id].ns} ELSE {})
           \cup {N[a].ns : a \in {b \in SeqRange(AttrKids(N, r.id)) : N[b].ns # "" /\ ~AttrPfx(r.info, N[b].ns).ok}} :
           r \in {q \in w.recs : q.at = "start"}}

L2Missing(N, x) ==
    LET w == Walk(N, x, XmlSeed) IN
    UNION {(IF ~ElemPfx(r.info, N[r.id].ns).ok THEN {N[r.id].ns} ELSE {})
           \cup {N[a].ns : a \in {b \in SeqRange(AttrKids(N, r.id)) : ~AttrPfx(r.info, N[b].ns).ok}} :
           r \in {q \in w.recs : q.at = "start"}}

GenNames == <<"n0", "n1", "n2", "n3", "n4", "n5", "n6", "n7">>
RECURSIVE PickNames(_, _, _)
PickNames(k, from, used) ==          \* the first k names n<from>, n<from+1>, ... that are not in use
    IF k = 0 \/ from > Len(GenNames) THEN <<>>
    ELSE IF GenNames[from] \in used THEN PickNames(k, from + 1, used)
    ELSE <<GenNames[from]>> \o PickNames(k - 1, from + 1, used)
SetAsSeq(S) == CHOOSE s \in [1..Cardinality(S) -> S] : \A a, b \in 1..Cardinality(S) : a # b => s[a] # s[b]

NsnRec(px, u) == [k |-> "nsn", p |-> 0, c |-> <<>>, ns |-> "", ln |-> px, t |-> <<>>, u |-> u, d |-> FALSE]
RECURSIVE AddDeclsTo(_, _, _, _, _)
AddDeclsTo(N, e, names, nss, j) ==
    IF j > Len(names) THEN N
    ELSE AddDeclsTo(InsertMapNode(Append(N, NsnRec(names[j], nss[j])), e, "nsn", Len(N) + 1), e, names, nss, j + 1)

L2CmpElem(N, x) ==
    LET missing == L2Missing(N, x)
        used == {b[1] : b \in SeqRange(L2InScopeSeq(N, x))}
                \cup {N[y].ln : y \in {z \in Subtree(N, x) : N[z].k = "nsn"}}
        names == PickNames(Cardinality(missing), 1, used)
    IN AddDeclsTo(N, x, names, SetAsSeq(missing), 1)
RECURSIVE L2CmpSeq(_, _, _)
L2CmpSeq(N, es, j) == IF j > Len(es) THEN N ELSE L2CmpSeq(L2CmpElem(N, es[j]), es, j + 1)
L2Cmp(N, x) ==
    IF N[x].k = "doc" THEN L2CmpSeq(N, SelectSeq(NormKids(N, x), LAMBDA y : N[y].k = "elem"), 1)
    ELSE L2CmpElem(N, x)

-----------------------------------------------------------------------------
(* deduplicate_namespaces: passes until nothing is removed                  *)

\* bindings_within(top, node, skip)
RECURSIVE BwUp(_, _, _, _, _)
BwUp(N, top, i, skip, seen) ==
    LET own == IF N[i].k = "elem" THEN {x \in SeqRange(NsKids(N, i)) : x \notin skip /\ N[x].ln \notin seen} ELSE {}
        here == {<<N[x].ln, N[x].u>> : x \in {y \in own : N[y].u # ""}}
    IN IF i = top \/ N[i].p = 0 THEN here
       ELSE here \cup BwUp(N, top, N[i].p, skip, seen \cup {N[x].ln : x \in own})
Bw(N, top, i, skip) == BwUp(N, top, i, skip, {})

NamesResolve(N, top, element, ns, skip) ==
    \A dd \in {y \in SeqRange(Descendants(N, element)) : N[y].k = "elem"} :
        LET b == Bw(N, top, dd, skip) IN
        /\ N[dd].ns = ns => (IF ns = "" THEN ~\E c \in b : c[1] = "" ELSE \E c \in b : c[2] = ns)
        /\ ns # "" => \A a \in SeqRange(AttrKids(N, dd)) : N[a].ns = ns => \E c \in b : c[2] = ns /\ c[1] # ""

RECURSIVE DdDecls(_, _, _, _, _, _)
DdDecls(N, top, element, decls, j, removed) ==
    IF j > Len(decls) THEN removed
    ELSE LET dn == decls[j]  px == N[dn].ln  ns == N[dn].u
             scopeTop == IF ns = "" THEN Root(N, top) ELSE top
             outer == Bw(N, scopeTop, N[element].p, removed)
             redundant == IF ns = "" THEN px = "" /\ ~\E b \in outer : b[1] = "" ELSE \E b \in outer : b[2] = ns
             r2 == removed \cup {dn}
         IN DdDecls(N, top, element, decls, j + 1,
                    IF redundant /\ NamesResolve(N, scopeTop, element, ns, r2) THEN r2 ELSE removed)
RECURSIVE DdElems(_, _, _, _, _)
DdElems(N, top, elems, j, removed) ==
    IF j > Len(elems) THEN removed
    ELSE LET e == elems[j] IN
         IF e = top \/ N[e].p = 0 THEN DdElems(N, top, elems, j + 1, removed)
         ELSE DdElems(N, top, elems, j + 1, DdDecls(N, top, e, NsKids(N, e), 1, removed))
L2DedupPass(N, top) == DdElems(N, top, SelectSeq(Descendants(N, top), LAMBDA y : N[y].k = "elem"), 1, {})
RECURSIVE L2DedupB(_, _, _)
L2DedupB(N, top, fuel) ==
    LET r == L2DedupPass(N, top) IN
    IF r = {} THEN [n |-> N, passes |-> 0]
    ELSE IF fuel = 0 THEN [n |-> N, passes |-> 1000]
    ELSE LET nx == L2DedupB(FreeSet(N, r), top, fuel - 1) IN [n |-> nx.n, passes |-> nx.passes + 1]
L2Dedup(N, top) == L2DedupB(N, top, Len(N))

-----------------------------------------------------------------------------
(* What TLC checks about L2 on a forest N (used by MCScope, MCScope3)       *)

ElemsAndDocs(N) == {i \in Live(N) : N[i].k \in {"elem", "doc"}}

\* namespaces_in_scope is the L1 scope, and lists no prefix twice
L2ScopeRefines(N) ==
    \A i \in Live(N) : LET s == L2InScopeSeq(N, i) IN
        /\ SeqRange(s) = InScope(N, i)
        /\ \A a, b \in 1..Len(s) : a # b => s[a][1] # s[b][1]
\* prefix_for_namespace answers with a prefix bound to ns in scope exactly when there is one
L2PrefixForRefines(N, nss) ==
    \A i \in Live(N) : \A ns \in nss :
        LET p == L2PrefixFor(N, i, ns) IN
        IF PrefixesFor(N, i, ns) = {} THEN p = "?none" ELSE p \in PrefixesFor(N, i, ns)
\* the serializer's stack is balanced whatever it is seeded with
L2StackBalanced(N) == \A x \in ElemsAndDocs(N) : StackDiscipline(N, x, L2InScopeSeq(N, x)) /\ StackDiscipline(N, x, XmlSeed)
\* serialisation fails exactly when some name (other than a no-namespace element name) is unusable, and every name
\* it writes means the node's expanded name - except for the shape of the open finding K-C10
L2SerRefines(N) ==
    \A x \in ElemsAndDocs(N) :
        /\ SerOk(N, x) <=> \A i \in Named(N, x) : (N[i].k = "elem" /\ N[i].ns = "") \/ NameUsable(N, i)
        /\ \A s \in SerNames(N, x) : s.r.ok => Faithful(N, x, s) \/ K10Shape(N, x, s)
\* unresolved_namespaces: exactly the namespaces of names that the declarations inside the subtree do not make usable
L2UnresolvedRefines(N) ==
    \A x \in ElemsAndDocs(N) : L2Unresolved(N, x) = Unresolved(N, x)
\* the shape of K-C10 in L1 terms: an element in no namespace where a default namespace is in force
K10Name(N, i) == N[i].k = "elem" /\ N[i].ns = "" /\ \E b \in InScope(N, i) : b[1] = ""
\* create_missing_prefixes satisfies the L1 relation, and afterwards the serializer writes every name faithfully
L2CmpRefines(N) ==
    \A x \in ElemsAndDocs(N) :
        CmpTarget(N, x) # 0 =>
            LET P == L2Cmp(N, x) IN
            /\ OnlyAddsDecls(N, P, x) /\ DependedBindingsKept(N, P, x)
            /\ \A i \in Named(P, x) : NameUsable(P, i) \/ K10Name(P, i)
            /\ (\A i \in Named(N, x) : ~K10Name(N, i)) => CmpOk(N, P, x)
            /\ SerOk(P, x)
            /\ \A s \in SerNames(P, x) : Faithful(P, x, s) \/ K10Shape(P, x, s)
            /\ L2Missing(P, x) = {}                      \* a second call adds nothing
\* deduplicate_namespaces satisfies the L1 relation, ends within as many passes as there are nodes, keeps a serialising
\* tree serialising with every name meaning what it meant
L2DedupRefines(N) ==
    \A x \in ElemsAndDocs(N) :
        LET r == L2Dedup(N, x)  P == r.n  top == Root(N, x) IN
        /\ r.passes < 1000
        /\ OnlyRemovesDecls(N, P, x) /\ DedupKeepsUsable(N, P, x) /\ DedupKeepsSelfContained(N, P, x)
        /\ L2DedupPass(P, x) = {}
        /\ SerOk(N, top) => SerOk(P, top)
        /\ \A s \in SerNames(P, top) : s.r.ok /\ (\E s0 \in SerNames(N, top) : s0.id = s.id /\ s0.r.ok /\ Faithful(N, top, s0))
                                        => Faithful(P, top, s)
=============================================================================
