------------------------------ MODULE MCHtmlNs ------------------------------
(***************************************************************************)
(* Bounded-exhaustive generator for the namespace bookkeeping of the HTML5 *)
(* serializer (C19): a root R with optional prefixed declarations for the  *)
(* SVG / MathML / XHTML namespaces, an element E (svg / div in any of the  *)
(* namespaces, hence written under a generated default declaration when    *)
(* only a prefix is in scope), inside it an element V that may be void and *)
(* may carry declarations of its own, and after E a sibling S in one of    *)
(* the namespaces.  These are the layouts in which a scope pushed for V or *)
(* E must be popped again before S is written.                             *)
(***************************************************************************)
EXTENDS XotHtmlL2, TLC, Json
CONSTANTS Dump
Nd(k, p, c, ns, ln, t, u) == [k |-> k, p |-> p, c |-> c, ns |-> ns, ln |-> ln, t |-> t, u |-> u, d |-> FALSE]
AddN(N, parent, nd) == [Append(N, [nd EXCEPT !.p = parent]) EXCEPT ![parent].c = Append(@, Len(N) + 1)]
Decl(N, e, px, uri) == AddN(N, e, Nd("nsn", 0, <<>>, "", px, <<>>, uri))
RootDecls == {"none", "sm", "h"}
Namespaces == {"", XhtmlNs, SvgNs, MathNs}
Mk(rd, en, ens, vn, vns, vd, sn, sns) ==
    LET N0 == <<Nd("elem", 0, <<>>, "", "div", <<>>, "")>>
        N1 == CASE rd = "sm" -> Decl(Decl(N0, 1, "s", SvgNs), 1, "m", MathNs)
                [] rd = "h" -> Decl(N0, 1, "h", XhtmlNs)
                [] OTHER -> N0
        e == Len(N1) + 1
        N2 == AddN(N1, 1, Nd("elem", 0, <<>>, ens, en, <<>>, ""))
        v == Len(N2) + 1
        N3 == AddN(N2, e, Nd("elem", 0, <<>>, vns, vn, <<>>, ""))
        N4 == CASE vd = "x" -> Decl(N3, v, "x", "u1")
                [] vd = "dh" -> Decl(N3, v, "", XhtmlNs)
                [] vd = "ds" -> Decl(N3, v, "", SvgNs)
                [] OTHER -> N3
    IN IF sn = "-" THEN N4 ELSE AddN(N4, 1, Nd("elem", 0, <<>>, sns, sn, <<>>, ""))
VARIABLES F, outer
vars == <<F, outer>>
Blank == [n |-> <<>>, cons |-> TRUE, eo |-> FALSE]
Init == F = Blank /\ outer \in [rd : RootDecls, en : {"svg", "div"}, ens : Namespaces]
Next == /\ F = Blank
        /\ outer' = outer
        /\ \E vn \in {"img", "span", "circle"}, vns \in {"", XhtmlNs, SvgNs}, vd \in {"-", "x", "dh", "ds"},
              sn \in {"-", "svg", "p", "rect"}, sns \in Namespaces :
             /\ (sn = "-" => sns = "")
             /\ F' = [n |-> Mk(outer.rd, outer.en, outer.ens, vn, vns, vd, sn, sns), cons |-> TRUE, eo |-> FALSE]
Spec == Init /\ [][Next]_vars
ValidInput == StructValidCore(F.n)
XhtmlHttps == "https://www.w3.org/1999/xhtml"
\* the transcription of the HTML serializer's name / declaration choices satisfies the rules, whichever namespace is
\* taken to be XHTML (the layouts use the http one: under the https reading they exercise "foreign namespace" paths)
L2HtmlRefines == F = Blank \/ (L2HtmlRefinesAt(F.n, 1, XhtmlNs) /\ L2HtmlRefinesAt(F.n, 1, XhtmlHttps))
\* the serializer refuses (MissingPrefix) only when some name really has no usable binding
L2HtmlTotal == F = Blank \/ (Usable(F.n, 1) => L2Html(F.n, 1, XhtmlNs).ok)
DumpState == Dump /\ F # Blank => PrintT("STATE " \o ToJson(F))
=============================================================================
