------------------------------ MODULE MCScope3 ------------------------------
(***************************************************************************)
(* Three-level declaration layouts  a / b / c[@attr]  over one namespace   *)
(* bound as default and / or under a prefix at each level (default may     *)
(* also be undeclared with xmlns=""): the same namespace redeclared down a *)
(* path, default declarations interleaved with prefixed ones, an attribute *)
(* that needs a prefixed binding while default bindings cover the          *)
(* elements (C15, C10, C09).  One initial state per layout; TLC checks the *)
(* scope definitions agree and prints the forest.                          *)
(***************************************************************************)
EXTENDS XotTree, TLC, Json
CONSTANT Dump
E(ns, ln, p, c) == [k |-> "elem", p |-> p, c |-> c, ns |-> ns, ln |-> ln, t |-> <<>>, u |-> "", d |-> FALSE]
NSN(px, u, p) == [k |-> "nsn", p |-> p, c |-> <<>>, ns |-> "", ln |-> px, t |-> <<>>, u |-> u, d |-> FALSE]
AT(ns, ln, p) == [k |-> "attr", p |-> p, c |-> <<>>, ns |-> ns, ln |-> ln, t |-> <<118>>, u |-> "", d |-> FALSE]
Decls(d0, dp) == (IF d0 = "-" THEN <<>> ELSE <<<<"", d0>>>>) \o (IF dp = "-" THEN <<>> ELSE <<<<"p", dp>>>>)
Add(N, parent, nd) == [Append(N, [nd EXCEPT !.p = parent]) EXCEPT ![parent].c = Append(@, Len(N) + 1)]
RECURSIVE AddDecls(_, _, _, _)
AddDecls(N, e, D, j) == IF j > Len(D) THEN N ELSE AddDecls(Add(N, e, NSN(D[j][1], D[j][2], 0)), e, D, j + 1)
Mk(n1, D1, n2, D2, n3, D3, an) ==
    LET N1 == AddDecls(<<E(n1, "a", 0, <<>>)>>, 1, D1, 1)
        b == Len(N1) + 1
        N2 == AddDecls(Add(N1, 1, E(n2, "b", 0, <<>>)), b, D2, 1)
        c == Len(N2) + 1
        N3 == AddDecls(Add(N2, b, E(n3, "c", 0, <<>>)), c, D3, 1)
    IN Add(N3, c, AT(an, "x", 0))
VARIABLE F
Init == \E a0 \in {"-", "u1", ""}, ap \in {"-", "u1"}, b0 \in {"-", "u1", ""}, bp \in {"-", "u1"}, c0 \in {"-", "u1", ""}, cp \in {"-", "u1"},
           n1 \in {"", "u1"}, n2 \in {"", "u1"}, n3 \in {"", "u1"}, an \in {"", "u1"} :
        F = [n |-> Mk(n1, Decls(a0, ap), n2, Decls(b0, bp), n3, Decls(c0, cp), an), cons |-> TRUE, eo |-> FALSE]
Next == UNCHANGED F
Spec == Init /\ [][Next]_F
ValidLayout == StructValidCore(F.n)
ResolutionIsFunction == \A x \in Live(F.n) : \A p \in {"", "p", "xml"} : Cardinality(NsForPrefix(F.n, x, p)) <= 1
DumpState == Dump => PrintT("STATE " \o ToJson(F))
=============================================================================
