//! Engine B: read-only observers.  For an abstract state (built in a real Xot through the public API) log,
//! for every node, what every traversal / axis / scope / equality API returns.  TLC recomputes each answer
//! from the parent/child structure alone (spec/XotTree.tla) and compares.
use crate::proj::{cps, World, WALK_BOUND};
use serde_json::{json, Value as J};
use std::panic::{catch_unwind, AssertUnwindSafe};
use xot::{Axis, LevelOrder, Node, NodeEdge, Xot};

fn ids(w: &World, it: impl Iterator<Item = Node>) -> Vec<i64> {
    let mut v = vec![];
    for (k, n) in it.enumerate() {
        if k >= WALK_BOUND {
            v.push(-999);
            break;
        }
        v.push(w.known(n).map(|x| x as i64).unwrap_or(-1));
    }
    v
}

fn edge(w: &World, e: Option<NodeEdge>) -> i64 {
    match e {
        None => 0,
        Some(NodeEdge::Start(n)) => w.known(n).map(|x| x as i64).unwrap_or(-999),
        Some(NodeEdge::End(n)) => -(w.known(n).map(|x| x as i64).unwrap_or(999)),
    }
}

fn edges(w: &World, it: impl Iterator<Item = NodeEdge>) -> Vec<i64> {
    let mut v = vec![];
    for (k, e) in it.enumerate() {
        if k >= 2 * WALK_BOUND {
            break;
        }
        v.push(edge(w, Some(e)));
    }
    v
}

fn opt(w: &World, n: Option<Node>) -> i64 {
    n.map(|n| w.known(n).map(|x| x as i64).unwrap_or(-1)).unwrap_or(0)
}

/// Run a closure under catch_unwind; a panic is recorded as the given marker.
fn guard<T>(f: impl FnOnce() -> T, on_panic: T) -> T {
    catch_unwind(AssertUnwindSafe(f)).unwrap_or(on_panic)
}

pub const AXES: [Axis; 13] = [
    Axis::Child,
    Axis::Descendant,
    Axis::Parent,
    Axis::Ancestor,
    Axis::FollowingSibling,
    Axis::PrecedingSibling,
    Axis::Following,
    Axis::Preceding,
    Axis::Attribute,
    Axis::Self_,
    Axis::DescendantOrSelf,
    Axis::AncestorOrSelf,
    Axis::Self_, // placeholder to keep a fixed length (xot has no namespace axis)
];

pub fn observe_axes(w: &World) -> J {
    let x: &Xot = &w.xot;
    let mut out = vec![];
    for id in 1..=w.handles.len() {
        let h = w.h(id);
        if x.is_removed(h) {
            out.push(json!({"live": false}));
            continue;
        }
        let panic_list = vec![-777i64];
        let ax: Vec<Vec<i64>> = AXES.iter().take(12).map(|a| guard(|| ids(w, x.axis(*a, h)), panic_list.clone())).collect();
        let lvl: Vec<i64> = guard(
            || {
                x.level_order(h)
                    .take(2 * WALK_BOUND)
                    .map(|l| match l {
                        LevelOrder::Node(n) => w.known(n).map(|v| v as i64).unwrap_or(-1),
                        LevelOrder::End => 0,
                    })
                    .collect()
            },
            panic_list.clone(),
        );
        let parent = x.parent(h);
        let ci = match parent {
            Some(p) => x.child_index(p, h).map(|v| v as i64).unwrap_or(-1),
            None => -1,
        };
        let de = if x.is_document(h) { guard(|| x.document_element(h).ok().map(|n| opt(w, Some(n))).unwrap_or(0), -777) } else { -1 };
        let top = guard(|| opt(w, Some(x.top_element(h))), -777);
        let mut pfxmap = x.prefixes(h).iter().map(|(p, n)| (x.prefix_str(*p).to_string(), x.namespace_str(*n).to_string())).collect::<Vec<_>>();
        pfxmap.sort();
        out.push(json!({
            "live": true,
            "par": opt(w, parent),
            "ch": ids(w, x.children(h)),
            "rch": ids(w, x.reverse_children(h)),
            "fc": opt(w, x.first_child(h)),
            "lc": opt(w, x.last_child(h)),
            "nx": opt(w, x.next_sibling(h)),
            "pv": opt(w, x.previous_sibling(h)),
            "fs": ids(w, x.following_siblings(h)),
            "pfs": ids(w, x.preceding_siblings(h)),
            "anc": ids(w, x.ancestors(h)),
            "desc": ids(w, x.descendants(h)),
            "adesc": ids(w, x.all_descendants(h)),
            "fol": guard(|| ids(w, x.following(h)), panic_list.clone()),
            "afol": guard(|| ids(w, x.all_following(h)), panic_list.clone()),
            "prec": guard(|| ids(w, x.preceding(h)), panic_list.clone()),
            "trav": edges(w, x.traverse(h)),
            "atrav": edges(w, x.all_traverse(h)),
            "rtrav": edges(w, x.reverse_traverse(h)),
            "ratrav": edges(w, x.reverse_all_traverse(h)),
            "rpre": guard(|| ids(w, x.reverse_preorder(h)), panic_list.clone()),
            "arpre": guard(|| ids(w, x.all_reverse_preorder(h)), panic_list.clone()),
            "lvl": lvl,
            "ax": ax,
            "ci": ci,
            "root": opt(w, Some(x.root(h))),
            "top": top,
            "de": de,
            "attrn": ids(w, x.attribute_nodes(h)),
            "ens": edge(w, NodeEdge::Start(h).next(x)),
            "ene": edge(w, NodeEdge::End(h).next(x)),
            "eps": edge(w, NodeEdge::Start(h).previous(x)),
            "epe": edge(w, NodeEdge::End(h).previous(x)),
            "sv": cps(&x.string_value(h)),
            // value / type access (beyond the listed properties: reported as notes)
            "vt": match x.value_type(h) {
                xot::ValueType::Document => "doc", xot::ValueType::Element => "elem", xot::ValueType::Text => "text",
                xot::ValueType::Comment => "comm", xot::ValueType::ProcessingInstruction => "pi",
                xot::ValueType::Attribute => "attr", xot::ValueType::Namespace => "nsn" },
            "isk": [x.is_document(h), x.is_element(h), x.is_text(h), x.is_comment(h), x.is_processing_instruction(h), x.is_attribute_node(h), x.is_namespace_node(h)],
            "hdp": x.has_document_parent(h),
            "ide": x.is_document_element(h),
            "nn": match x.node_name(h) { Some(n) => { let (l, ns) = x.name_ns_str(n); json!([true, ns, l]) } None => json!([false, "", ""]) },
            "tcs": match x.text_content_str(h) { Some(t) => json!([true, cps(t)]), None => json!([false, []]) },
            "wfd": match x.validate_well_formed_document(h) {
                Ok(()) => "ok",
                Err(xot::Error::NotDocument(_)) => "notdoc",
                Err(xot::Error::NoElementAtTopLevel) => "noelem",
                Err(xot::Error::MultipleElementsAtTopLevel) => "multi",
                Err(xot::Error::TextAtTopLevel(_)) => "text",
                Err(xot::Error::IllegalAtTopLevel(_)) => "illegal",
                Err(_) => "other" },
            "decls": x.namespace_declarations(h).iter().map(|(p, n)| json!([x.prefix_str(*p), x.namespace_str(*n)])).collect::<Vec<_>>(),
            "pfxmap": pfxmap,
        }));
    }
    J::Array(out)
}

/// Namespace scope observations (C09).  `pfx` / `uris`: the prefixes and namespaces known to the Xot that the
/// queries are asked for.
pub fn observe_scope(w: &mut World, pfx: &[String], uris: &[String]) -> J {
    let pids: Vec<xot::PrefixId> = pfx.iter().map(|p| w.xot.add_prefix(p)).collect();
    let nids: Vec<xot::NamespaceId> = uris.iter().map(|u| w.xot.add_namespace(u)).collect();
    let x: &Xot = &w.xot;
    let mut out = vec![];
    for id in 1..=w.handles.len() {
        let h = w.h(id);
        if x.is_removed(h) {
            out.push(json!({"live": false}));
            continue;
        }
        let mut inscope: Vec<(String, String)> = guard(
            || x.namespaces_in_scope(h).take(WALK_BOUND).map(|(p, n)| (x.prefix_str(p).to_string(), x.namespace_str(n).to_string())).collect(),
            vec![("?panic".to_string(), "?panic".to_string())],
        );
        inscope.sort();
        let nfp: Vec<J> = pids
            .iter()
            .map(|p| match guard(|| x.namespace_for_prefix(h, *p).map(|n| x.namespace_str(n).to_string()), Some("?panic".to_string())) {
                Some(n) => json!([true, n]),
                None => json!([false, ""]),
            })
            .collect();
        let pfn: Vec<J> = nids
            .iter()
            .map(|n| match guard(|| x.prefix_for_namespace(h, *n).map(|p| x.prefix_str(p).to_string()), Some("?panic".to_string())) {
                Some(p) => json!([true, p]),
                None => json!([false, ""]),
            })
            .collect();
        let ipd: Vec<bool> = pids.iter().map(|p| x.is_prefix_defined(h, *p)).collect();
        // (a panic of an accessor is data: it shows as a value no scope can have)
        let mut inh: Vec<(String, String)> = guard(
            || x.inherited_prefixes(h).iter().map(|(p, n)| (x.prefix_str(*p).to_string(), x.namespace_str(*n).to_string())).collect(),
            vec![("?panic".to_string(), "?panic".to_string())],
        );
        inh.sort();
        let mut unres: Vec<String> =
            guard(|| x.unresolved_namespaces(h).iter().map(|n| x.namespace_str(*n).to_string()).collect(), vec!["?panic".to_string()]);
        unres.sort();
        unres.dedup();
        // qualified names: full_name, name_ref, node_name_ref (element and attribute nodes)
        let (mut fnm, mut nref, mut nnref) = (json!(["na", "", ""]), json!(["na", "", ""]), json!(["na", "", ""]));
        let mut nview = json!({"has": false, "full": "", "ns": "", "unpref": false, "o": ["", "", "", ""], "indef": false, "eqpx": false, "back": false});
        if let Some(name) = x.node_name(h) {
            if x.is_element(h) || x.is_attribute_node(h) {
                fnm = match guard(|| x.full_name(h, name).map_err(|_| ()), Err(())) {
                    Ok(s) => match s.split_once(':') {
                        Some((p, l)) => json!(["ok", p, l]),
                        None => json!(["ok", "", s]),
                    },
                    Err(()) => json!(["err", "", ""]),
                };
                nref = match guard(|| x.name_ref(name, h).map_err(|_| xot::Error::NotElement(h)), Err(xot::Error::NotElement(h))) {
                    Ok(r) => {
                        use xot::xmlname::NameStrInfo;
                        // the other views of the same name: the strings of the reference itself, and its owned copy
                        nview = guard(
                            || {
                                let o = r.to_owned();
                                let back = o.maybe_to_ref(x);
                                let other = xot::xmlname::OwnedName::new(o.local_name().to_string(), o.namespace().to_string(), "zz9".to_string());
                                json!({"has": true, "full": r.full_name(), "ns": r.namespace(), "unpref": r.has_unprefixed_namespace(),
                                       "o": [o.prefix(), o.local_name(), o.namespace(), o.full_name()], "indef": o.in_default_namespace(),
                                       "eqpx": o == other,
                                       "back": match back { Some(b) => b.name_id() == r.name_id() && b.prefix_id() == r.prefix_id(), None => false }})
                            },
                            json!({"has": true, "full": "?panic", "ns": "?panic", "unpref": false, "o": ["?", "?", "?", "?"], "indef": false, "eqpx": false, "back": false}),
                        );
                        json!(["ok", r.prefix(), r.local_name()])
                    }
                    Err(_) => json!(["err", "", ""]),
                };
                nnref = match x.node_name_ref(h) {
                    Ok(Some(r)) => {
                        use xot::xmlname::NameStrInfo;
                        json!(["ok", r.prefix(), r.local_name()])
                    }
                    Ok(None) => json!(["none", "", ""]),
                    Err(_) => json!(["err", "", ""]),
                };
            }
        }
        out.push(json!({"live": true, "inscope": inscope, "nfp": nfp, "pfn": pfn, "ipd": ipd, "inh": inh, "unres": unres,
                         "fnm": fnm, "nref": nref, "nnref": nnref, "nview": nview}));
    }
    J::Array(out)
}

/// Equality observations (C13) for the given pairs of node ids.
pub fn observe_eq(w: &mut World, pairs: &[(usize, usize)], ignore_lists: &[Vec<(String, String)>]) -> J {
    let lists: Vec<Vec<xot::NameId>> = ignore_lists
        .iter()
        .map(|l| {
            l.iter()
                .map(|(ns, ln)| {
                    let n = w.xot.add_namespace(ns);
                    w.xot.add_name_ns(ln, n)
                })
                .collect()
        })
        .collect();
    let bname = w.xot.add_name("b");
    let x: &Xot = &w.xot;
    let ci = |a: &str, b: &str| a.eq_ignore_ascii_case(b);
    let trim = |a: &str, b: &str| a.trim_matches(' ') == b.trim_matches(' ');
    let mut out = vec![];
    for &(a, b) in pairs {
        let (ha, hb) = (w.h(a), w.h(b));
        let sei: Vec<i64> = lists
            .iter()
            .map(|l| guard(|| if x.shallow_equal_ignore_attributes(ha, hb, l) { 1 } else { 0 }, -777))
            .collect();
        out.push(json!({
            "a": a, "b": b,
            "de": x.deep_equal(ha, hb),
            "dec": x.deep_equal_children(ha, hb),
            "dx": x.deep_equal_xpath(ha, hb, |p, q| p == q),
            "dxci": x.deep_equal_xpath(ha, hb, ci),
            "adnc": x.advanced_deep_equal(ha, hb, |n| !x.is_comment(n), |p, q| p == q),
            "adnp": x.advanced_deep_equal(ha, hb, |n| !x.is_processing_instruction(n), |p, q| p == q),
            "adet": x.advanced_deep_equal(ha, hb, |n| x.is_element(n) || x.is_text(n), trim),
            "adnb": x.advanced_deep_equal(ha, hb, |n| !(x.is_element(n) && x.element(n).unwrap().name() == bname), |p, q| p == q),
            "adnv": x.advanced_deep_equal(ha, hb, |_| true, |_, _| false),
            "se": x.shallow_equal(ha, hb),
            "sei": sei,
        }));
    }
    J::Array(out)
}
