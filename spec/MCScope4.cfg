SPECIFICATION Spec
CONSTANT Dump = FALSE
INVARIANTS ValidLayout ResolutionIsFunction L2Scope L2Ser L2Unres L2CmpInv L2DedupInv RT
CHECK_DEADLOCK FALSE
