------------------------------- MODULE XotBase -------------------------------
(***************************************************************************)
(* Data model of xot's abstract state: an ordered forest of typed nodes    *)
(* with stable identities.                                                 *)
(*                                                                         *)
(* A forest is a sequence N of node records indexed by node id (ids are    *)
(* never reused; a removed node keeps its id with kind "rm"):              *)
(*   k  kind: "doc" "elem" "text" "comm" "pi" "attr" "nsn" "rm"            *)
(*   p  parent id, 0 = none                                                *)
(*   c  raw child list: namespace nodes, attribute nodes, normal children  *)
(*   ns,ln  expanded name (elem, attr, pi target); ln = prefix of an "nsn" *)
(*   t  characters (code points) of text / comment / pi data / attr value  *)
(*   u  namespace URI of a namespace node                                  *)
(*   d  pi has data                                                        *)
(* The same record shape is produced by the Rust harness' projection of a  *)
(* real Xot (harness/src/proj.rs), so logged states are values of this     *)
(* module without translation.                                             *)
(***************************************************************************)
EXTENDS Naturals, Sequences, FiniteSets, SequencesExt

RM == [k |-> "rm", p |-> 0, c |-> <<>>, ns |-> "", ln |-> "", t |-> <<>>, u |-> "", d |-> FALSE]

NormalKinds == {"doc", "elem", "text", "comm", "pi"}
AllKinds == NormalKinds \cup {"attr", "nsn", "rm"}

XmlNs == "http://www.w3.org/XML/1998/namespace"

Ids(N) == 1..Len(N)
Live(N) == {i \in Ids(N) : N[i].k # "rm"}
IsNormal(N, i) == N[i].k \in NormalKinds
Cat(N, i) == IF N[i].k = "nsn" THEN 1 ELSE IF N[i].k = "attr" THEN 2 ELSE 3

SeqRange(s) == {s[i] : i \in 1..Len(s)}

NsKids(N, p) == SelectSeq(N[p].c, LAMBDA x : N[x].k = "nsn")
AttrKids(N, p) == SelectSeq(N[p].c, LAMBDA x : N[x].k = "attr")
NormKids(N, p) == SelectSeq(N[p].c, LAMBDA x : IsNormal(N, x))
AbnKids(N, p) == SelectSeq(N[p].c, LAMBDA x : ~IsNormal(N, x))

Pos(s, e) == CHOOSE i \in 1..Len(s) : s[i] = e
Has(s, e) == \E i \in 1..Len(s) : s[i] = e

RECURSIVE AncB(_, _, _)
AncB(N, i, d) == IF d = 0 \/ N[i].p = 0 THEN {i} ELSE {i} \cup AncB(N, N[i].p, d - 1)
AncOrSelf(N, i) == AncB(N, i, Len(N))

RECURSIVE RootB(_, _, _)
RootB(N, i, d) == IF d = 0 \/ N[i].p = 0 THEN i ELSE RootB(N, N[i].p, d - 1)
Root(N, i) == RootB(N, i, Len(N))

RECURSIVE SubB(_, _, _)
SubB(N, i, d) == IF d = 0 THEN {i} ELSE {i} \cup UNION {SubB(N, N[i].c[j], d - 1) : j \in 1..Len(N[i].c)}
Subtree(N, i) == SubB(N, i, Len(N))

\* all-descendants order: node, its namespace nodes, its attribute nodes, its children, recursively
\* (explicit recursion over the child list: a function constructor of recursive calls handed to FlattenSeq is
\* re-evaluated by TLC on every application, which is exponential in the depth of the tree)
RECURSIVE PreB(_, _, _), PreKids(_, _, _, _)
PreB(N, i, d) == IF d = 0 THEN <<i>> ELSE <<i>> \o PreKids(N, N[i].c, 1, d - 1)
PreKids(N, kids, j, d) == IF j > Len(kids) THEN <<>> ELSE PreB(N, kids[j], d) \o PreKids(N, kids, j + 1, d)
PreAll(N, i) == PreB(N, i, Len(N))
PreNorm(N, i) == SelectSeq(PreAll(N, i), LAMBDA x : IsNormal(N, x))

\* previous / next sibling among the normal children (0 = none; 0 for roots and for attr/ns nodes)
PrevNorm(N, x) ==
    IF x = 0 \/ N[x].p = 0 \/ ~IsNormal(N, x) THEN 0
    ELSE LET s == NormKids(N, N[x].p)  i == Pos(s, x) IN IF i = 1 THEN 0 ELSE s[i - 1]
NextNorm(N, x) ==
    IF x = 0 \/ N[x].p = 0 \/ ~IsNormal(N, x) THEN 0
    ELSE LET s == NormKids(N, N[x].p)  i == Pos(s, x) IN IF i = Len(s) THEN 0 ELSE s[i + 1]

IsText(N, x) == x # 0 /\ N[x].k = "text"

-----------------------------------------------------------------------------
(* pure list surgery *)

Without(s, S) == SelectSeq(s, LAMBDA y : y \notin S)

DetachRaw(N, x) ==
    IF N[x].p = 0 THEN N
    ELSE [N EXCEPT ![N[x].p].c = Without(@, {x}), ![x].p = 0]

\* x (detached) becomes the k-th normal child of q
InsertNormalAt(N, q, x, k) ==
    LET abn == AbnKids(N, q)
        nrm == NormKids(N, q)
        newc == abn \o SubSeq(nrm, 1, k - 1) \o <<x>> \o SubSeq(nrm, k, Len(nrm))
    IN [N EXCEPT ![q].c = newc, ![x].p = q]

\* free a set of nodes: they become "rm" and disappear from every child list
FreeSet(N, S) ==
    [i \in 1..Len(N) |-> IF i \in S THEN RM ELSE [N[i] EXCEPT !.c = Without(@, S)]]

\* text of b is appended to a, b is freed
MergeInto(N, a, b) == FreeSet([N EXCEPT ![a].t = @ \o N[b].t], {b})
\* text of a is prepended to b, a is freed
MergeIntoNext(N, a, b) == FreeSet([N EXCEPT ![b].t = N[a].t \o @], {a})

-----------------------------------------------------------------------------
(* Structural validity (property C04) *)

TypeOK(N) ==
    /\ \A i \in Ids(N) :
        /\ N[i].k \in AllKinds
        /\ N[i].p \in 0..Len(N)
        /\ \A j \in 1..Len(N[i].c) : N[i].c[j] \in 1..Len(N)

ParentKidsConsistent(N) ==
    /\ \A i \in Ids(N) : \A j \in 1..Len(N[i].c) : N[N[i].c[j]].p = i
    /\ \A i \in Ids(N) : N[i].p # 0 => Has(N[N[i].p].c, i)
    /\ \A i \in Ids(N) : \A j1, j2 \in 1..Len(N[i].c) : j1 # j2 => N[i].c[j1] # N[i].c[j2]

Acyclic(N) == \A i \in Ids(N) : N[Root(N, i)].p = 0

RemovedClean(N) ==
    \A i \in Ids(N) : N[i].k = "rm" =>
        /\ N[i] = RM
        /\ \A q \in Ids(N) : ~Has(N[q].c, i)

CategoryOrder(N) ==
    \A i \in Ids(N) : \A j1, j2 \in 1..Len(N[i].c) :
        j1 < j2 => Cat(N, N[i].c[j1]) <= Cat(N, N[i].c[j2])

KindRules(N) ==
    \A i \in Live(N) :
        /\ N[i].k \in {"attr", "nsn"} /\ N[i].p # 0 => N[N[i].p].k = "elem"
        /\ N[i].k = "doc" => N[i].p = 0
        /\ N[i].k \notin {"doc", "elem"} => N[i].c = <<>>
        /\ N[i].p # 0 => N[N[i].p].k \in {"doc", "elem"}
        /\ N[i].k = "doc" => \A j \in 1..Len(N[i].c) : IsNormal(N, N[i].c[j])

UniqueKeys(N) ==
    \A i \in Live(N) : N[i].k = "elem" =>
        /\ \A x, y \in SeqRange(AttrKids(N, i)) : x # y => <<N[x].ns, N[x].ln>> # <<N[y].ns, N[y].ln>>
        /\ \A x, y \in SeqRange(NsKids(N, i)) : x # y => N[x].ln # N[y].ln

NoAdjacentText(N) ==
    \A i \in Live(N) : LET s == NormKids(N, i) IN
        \A j \in 1..(Len(s) - 1) : ~(N[s[j]].k = "text" /\ N[s[j + 1]].k = "text")

StructValidCore(N) ==
    /\ TypeOK(N)
    /\ ParentKidsConsistent(N)
    /\ Acyclic(N)
    /\ RemovedClean(N)
    /\ CategoryOrder(N)
    /\ KindRules(N)
    /\ UniqueKeys(N)

\* name of the first failing clause, for diagnostics
StructDefect(N) ==
    IF ~TypeOK(N) THEN "type"
    ELSE IF ~ParentKidsConsistent(N) THEN "parent-kids"
    ELSE IF ~Acyclic(N) THEN "cycle"
    ELSE IF ~RemovedClean(N) THEN "removed-node-linked"
    ELSE IF ~CategoryOrder(N) THEN "ns-attr-child-order"
    ELSE IF ~KindRules(N) THEN "kind-rules"
    ELSE IF ~UniqueKeys(N) THEN "duplicate-key"
    ELSE "none"

=============================================================================
