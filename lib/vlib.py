"""Shared machinery of /verif/check: build the harness from /repo's working tree, run TLC (model checking and
trace validation, sharded over JVMs), parse its output, match rejections against known findings, write evidence.

Exit codes used by callers: 0 property held on everything explored; 1 VIOLATION (with replay file);
2 tool error (build failure, TLC crash, timeout, malformed trace) - never reported as a violation."""
import concurrent.futures as cf
import hashlib
import json
import os
import re
import shutil
import subprocess
import sys
import time

ROOT = os.path.dirname(os.path.dirname(os.path.abspath(__file__)))
SPEC = os.path.join(ROOT, "spec")
WORK = os.path.join(ROOT, "work")
HARNESS = os.path.join(ROOT, "harness")
EVID = os.path.join(ROOT, "evidence")
REPLAYS = os.path.join(ROOT, "replays")
KNOWN_FILE = os.path.join(ROOT, "known_findings.json")


class ToolError(Exception):
    pass


def log(*a):
    print(*a, flush=True)


def workdir(name):
    d = os.path.join(WORK, name)
    shutil.rmtree(d, ignore_errors=True)
    os.makedirs(d, exist_ok=True)
    return d


def build_harness(release=False):
    """cargo build of the harness; its path dependency makes cargo rebuild xot from /repo's working tree."""
    env = dict(os.environ, CARGO_NET_OFFLINE="true")
    cmd = ["cargo", "build", "--offline"] + (["--release"] if release else [])
    t0 = time.time()
    hdir = HARNESS
    lane = os.environ.get("XV_REPO", "")
    if lane and os.path.abspath(lane) != "/repo":
        # development aid (never set by the commands registered in MANIFEST.json): build the harness against another copy
        # of the crate, e.g. the /repo snapshot of a `vp run --with-repo`, so that a long run is not disturbed by what
        # happens to /repo meanwhile
        hdir = os.path.join(WORK, "harness_lane")
        os.makedirs(hdir, exist_ok=True)
        subprocess.run(["rsync", "-a", "--delete", "--exclude", "target", HARNESS + "/", hdir + "/"], check=True)
        ct = open(os.path.join(hdir, "Cargo.toml")).read().replace('path = "/repo"', 'path = "%s"' % os.path.abspath(lane))
        open(os.path.join(hdir, "Cargo.toml"), "w").write(ct)
    p = subprocess.run(cmd, cwd=hdir, env=env, stdout=subprocess.PIPE, stderr=subprocess.STDOUT, text=True)
    if p.returncode != 0:
        log(p.stdout[-4000:])
        raise ToolError("harness build failed")
    exe = os.path.join(hdir, "target", "release" if release else "debug", "xv")
    if not os.path.exists(exe):
        raise ToolError("harness binary missing")
    log(f"[build] harness ({'release' if release else 'dev'}) built in {time.time()-t0:.1f}s")
    return exe


def run_harness(exe, args, timeout=600):
    env = dict(os.environ)
    if "--out" in args:
        bf = args[args.index("--out") + 1] + ".buildfail"
        if os.path.exists(bf):
            os.remove(bf)
        env["XV_BUILDFAIL"] = bf
    p = subprocess.run([exe] + args, stdout=subprocess.PIPE, stderr=subprocess.PIPE, text=True, timeout=timeout, env=env)
    if p.returncode != 0:
        log(p.stderr[-3000:])
        raise ToolError(f"harness {' '.join(args[:1])} exited {p.returncode}")
    return p


# ------------------------------------------------------------------------------------------------ known findings
def load_known():
    if not os.path.exists(KNOWN_FILE):
        return []
    return json.load(open(KNOWN_FILE))["findings"]


def open_known_ids():
    return [f["id"] for f in load_known() if f.get("status") == "open"]


# ------------------------------------------------------------------------------------------------ TLC
TLC_CP = "/opt/veriftools/tla/tla2tools.jar:/opt/veriftools/tla/CommunityModules-deps.jar"


def tlc_cmd(module, cfg, workers, metadir, extra=None, xmx="4g"):
    return (["java", "-XX:+UseParallelGC", f"-Xmx{xmx}", "-Xss1g", "-cp", TLC_CP, "tlc2.TLC",
             "-workers", str(workers), "-metadir", metadir, "-cleanup", "-noGenerateSpecTE",
             "-config", cfg] + (extra or []) + [module])


_UNESC = re.compile(r'\\(.)')


def unquote_tla(s):
    """TLC prints a string value as a TLA+ literal: "..." with \\" and \\\\ escapes."""
    s = s.strip()
    if s.startswith('"') and s.endswith('"'):
        s = s[1:-1]
    return _UNESC.sub(lambda m: m.group(1), s)


STAT_RE = re.compile(r"(\d+) states generated, (\d+) distinct states found")


def run_tlc(module, cfg, workers=4, timeout=600, env=None, extra=None, tag="tlc", xmx="4g", keep_prefixes=("REJECT ", "STATE ", "CASE ")):
    """Run TLC; return dict(ok, generated, distinct, lines (payload lines starting with keep_prefixes), tail, error)."""
    md = workdir("md_" + tag)
    e = dict(os.environ)
    e.pop("JAVA_TOOL_OPTIONS", None)
    if env:
        e.update(env)
    cmd = tlc_cmd(module, cfg, workers, md, extra, xmx)
    t0 = time.time()
    try:
        p = subprocess.run(cmd, cwd=SPEC, env=e, stdout=subprocess.PIPE, stderr=subprocess.STDOUT, text=True, timeout=timeout)
    except subprocess.TimeoutExpired:
        shutil.rmtree(md, ignore_errors=True)
        raise ToolError(f"TLC timed out after {timeout}s on {module} {cfg}")
    shutil.rmtree(md, ignore_errors=True)
    out = p.stdout
    lines = []
    cov = {}
    for ln in out.splitlines():
        if ln.startswith('"'):
            u = unquote_tla(ln)
            if u.startswith(keep_prefixes):
                lines.append(u)
    m = None
    for m in STAT_RE.finditer(out):
        pass
    gen, dist = (int(m.group(1)), int(m.group(2))) if m else (0, 0)
    ok = "Model checking completed. No error has been found." in out or "Finished computing" in out and "Error:" not in out
    err = None
    if "Error:" in out or not ok:
        i = out.find("Error:")
        err = out[i:i + 3000] if i >= 0 else out[-3000:]
        ok = False
    return dict(ok=ok, generated=gen, distinct=dist, lines=lines, error=err, wall=time.time() - t0, raw=out)


def shard_trace(path, nshards, outdir):
    """Split an ndjson trace into shards at episode boundaries ("reset" events). Returns [(path, first_global_line)]."""
    with open(path) as f:
        lines = f.readlines()
    starts = [i for i, l in enumerate(lines) if '"op":"reset"' in l]
    if not starts or starts[0] != 0:
        raise ToolError("trace does not start with a reset event")
    n = len(lines)
    target = max(1, n // nshards)
    shards = []
    cur_start = 0
    for s in starts[1:] + [n]:
        if s - cur_start >= target or s == n:
            if s > cur_start:
                shards.append((cur_start, s))
                cur_start = s
    res = []
    for k, (a, b) in enumerate(shards):
        sp = os.path.join(outdir, f"shard{k}.ndjson")
        with open(sp, "w") as f:
            f.writelines(lines[a:b])
        res.append((sp, a, b - a))
    return res, lines


def validate_trace(trace_path, module="TraceForest.tla", cfg="TraceForest.cfg", nshards=12, timeout=900, tag="trace"):
    """Validate a recorded trace against the specification with TLC. Returns dict(events, rejects[list of dict with
    global line index 'line' (0-based) and the event json], states, distinct)."""
    d = workdir("tv_" + tag)
    shards, lines = shard_trace(trace_path, nshards, d)
    known_path = os.path.join(d, "known.json")
    json.dump(open_known_ids(), open(known_path, "w"))

    def one(k):
        sp, first, cnt = shards[k]
        r = run_tlc(module, cfg, workers=1, timeout=timeout, env={"TRACE": sp, "KNOWN": known_path}, tag=f"{tag}_{k}", xmx="3g")
        return k, r

    rejects = []
    gen = dist = 0
    with cf.ThreadPoolExecutor(max_workers=min(len(shards), 14)) as ex:
        for k, r in ex.map(one, range(len(shards))):
            sp, first, cnt = shards[k]
            if not r["ok"]:
                log(r["error"] or r["raw"][-2000:])
                raise ToolError(f"TLC failed on shard {k} of {trace_path}")
            if r["distinct"] != cnt + 1:
                raise ToolError(f"trace shard {k} not fully consumed: {r['distinct']} states for {cnt} events")
            if any(l.startswith("NOTCONSUMED") for l in r["lines"]):
                raise ToolError(f"trace shard {k} not consumed")
            gen += r["generated"]
            dist += r["distinct"]
            for l in r["lines"]:
                if l.startswith("REJECT "):
                    j = parse_reject(l)
                    j["line"] = first + j["i"] - 1
                    rejects.append(j)
    rejects.sort(key=lambda j: (j["line"], j["prop"]))
    shutil.rmtree(d, ignore_errors=True)
    return dict(events=len(lines), rejects=rejects, states=gen, distinct=dist, lines=lines)


def validate_trace_flat(trace_path, module, cfg, nshards=12, timeout=900, tag="flat"):
    """Like validate_trace for traces whose events are independent (no episodes): shard by line count."""
    d = workdir("tv_" + tag)
    with open(trace_path) as f:
        lines = f.readlines()
    n = len(lines)
    per = max(1, (n + nshards - 1) // nshards)
    shards = []
    for k in range(0, n, per):
        sp = os.path.join(d, f"shard{k}.ndjson")
        with open(sp, "w") as f:
            f.writelines(lines[k:k + per])
        shards.append((sp, k, min(per, n - k)))
    known_path = os.path.join(d, "known.json")
    json.dump(open_known_ids(), open(known_path, "w"))

    def one(k):
        sp, first, cnt = shards[k]
        return k, run_tlc(module, cfg, workers=1, timeout=timeout, env={"TRACE": sp, "KNOWN": known_path}, tag=f"{tag}_{k}", xmx="3g")

    rejects = []
    gen = dist = 0
    with cf.ThreadPoolExecutor(max_workers=min(len(shards), 14)) as ex:
        for k, r in ex.map(one, range(len(shards))):
            sp, first, cnt = shards[k]
            if not r["ok"]:
                log(r["error"] or r["raw"][-2000:])
                raise ToolError(f"TLC failed on shard {k} of {trace_path}")
            if r["distinct"] != cnt + 1:
                raise ToolError(f"trace shard {k} not fully consumed: {r['distinct']} states for {cnt} events")
            gen += r["generated"]
            dist += r["distinct"]
            for l in r["lines"]:
                if l.startswith("REJECT "):
                    j = parse_reject(l)
                    j["line"] = first + j["i"] - 1
                    rejects.append(j)
    rejects.sort(key=lambda j: (j["line"], j["prop"]))
    shutil.rmtree(d, ignore_errors=True)
    return dict(events=n, rejects=rejects, states=gen, distinct=dist, lines=lines)


def parse_reject(l):
    """one REJECT line printed by a trace judge.  TLC's ToJson does not escape every character a string of the crate may
    hold (control characters inside a projected value); such a line is still a rejection: keep its position, property
    and operation and carry the rest as raw text."""
    body = l[len("REJECT "):]
    try:
        return json.loads(body)
    except ValueError:
        pass
    try:
        return json.loads(body, strict=False)
    except ValueError:
        pass
    import re
    mi = re.search(r'"i":\s*(\d+)', body)
    mp = re.search(r'"prop":\s*"([A-Za-z0-9]+)"', body)
    mo = re.search(r'"op":\s*"([^"]*)"', body)
    mk = re.search(r'"known":\s*"([^"]*)"', body)
    if not (mi and mp):
        raise ToolError("unreadable REJECT line from TLC: " + body[:300])
    return {"i": int(mi.group(1)), "prop": mp.group(1), "op": mo.group(1) if mo else "", "a": [], "res": "",
            "detail": ["(detail not valid JSON; raw)", body[:600]], "known": mk.group(1) if mk else ""}


def buildfail(out_path, prop, violations, known, tag):
    """States the harness could not build through the public API are logged as construction episodes; TLC points at the
    call that deviates from L1.  Rejections charged to `prop` become violations of this check; if L1 accepts every
    construction step although the read-back differs, the machinery itself is wrong (tool error)."""
    bf = out_path + ".buildfail"
    if not os.path.exists(bf) or os.path.getsize(bf) == 0:
        return 0
    v = validate_trace(bf, nshards=8, tag=tag + "_bf")
    if not v["rejects"]:
        raise ToolError("a scenario could not be rebuilt in the real crate although every construction call is an L1 step")
    other = 0
    for rj in v["rejects"]:
        if rj["prop"] != prop and not rj["known"]:
            # the state this check wanted to examine cannot even be built through the public API: on the unchanged crate
            # that never happens (it would be a tool error); it is reported here too, naming the property L1 charges
            other += 1
            if len(violations) < 5:
                rj2 = dict(rj, detail=["a scenario of this check could not be constructed: the crate deviates from L1 under " + rj["prop"], rj["detail"]])
                violations.append(save_replay(prop, scenario_for(v["lines"], rj["line"]), rj2))
                log(f"  reject (while constructing a scenario; L1 charges {rj['prop']}): {rj['op']} a={rj['a']} res={rj['res']} detail={json.dumps(rj['detail'])[:200]}")
            continue
        if rj["prop"] != prop:
            other += 1
            continue
        if rj["known"]:
            known.setdefault(rj["known"], 0)
            known[rj["known"]] += 1
            continue
        if len(violations) < 25:
            violations.append(save_replay(prop, scenario_for(v["lines"], rj["line"]), rj))
            log(f"  reject (while constructing a scenario): {rj['op']} a={rj['a']} res={rj['res']} detail={json.dumps(rj['detail'])[:200]}")
    log(f"[buildfail] {v['events']} construction events, {len(v['rejects'])} rejections ({other} charged to other properties)")
    return other


def scenario_for(lines, idx):
    """Self-contained replay scenario for the event at global line idx: the pre-state and the call."""
    ev = json.loads(lines[idx])
    pre = json.loads(lines[idx - ev["back"]])["post"]
    op = {k: ev[k] for k in ("op", "a", "ns", "ln", "s", "px", "uri", "b")}
    return {"pre": pre, "ops": [op], "observed": {"res": ev["res"], "ret": ev["ret"], "post": ev["post"]}}


def save_replay(prop, scenario, detail):
    os.makedirs(REPLAYS, exist_ok=True)
    blob = json.dumps({"property": prop, "scenario": scenario, "detail": detail}, sort_keys=True)
    h = hashlib.sha1(blob.encode()).hexdigest()[:12]
    path = os.path.join(REPLAYS, f"{prop}-{h}.json")
    with open(path, "w") as f:
        f.write(blob)
    return path


# ------------------------------------------------------------------------------------------------ evidence
def write_evidence(prop, tier, seed, coverage, assumptions, wall, violations, level="model_checking"):
    os.makedirs(EVID, exist_ok=True)
    ev = {
        "property_id": prop,
        "tier": tier,
        "seed": int(seed),
        "level": level,
        "coverage": coverage,
        "assumptions": assumptions,
        "wall_s": round(wall, 1),
        "violations": int(violations),
    }
    with open(os.path.join(EVID, f"{prop}.json"), "w") as f:
        json.dump(ev, f, indent=1, sort_keys=True)
    return ev
