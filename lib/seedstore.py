#!/usr/bin/env python3
"""Development aid: confirm a sub-agent's seed in a scratch worktree, run the listed checks against it, store it under /verif/seeded/.
usage: seedstore.py <prop> <A|B> <check1,check2,...> [<name under which it is stored>]     (SEEDBASE: where the seeds are, default /tmp/wt)"""
import json, os, shutil, subprocess, sys
prop, var, checks = sys.argv[1], sys.argv[2], sys.argv[3]
base = os.environ.get("SEEDBASE", "/tmp/wt")
name = sys.argv[4] if len(sys.argv) > 4 else var
src = f"{base}/{prop}/_seed/{var}"
p = subprocess.run([sys.executable, "/verif/lib/seedtest.py", src, checks], stdout=subprocess.PIPE, stderr=subprocess.STDOUT, text=True)
print(p.stdout[-1500:])
if p.returncode not in (0,):
    print("seedtest failed", p.returncode); sys.exit(1)
res = json.load(open(os.path.join(src, "result.json")))
dst = f"/verif/seeded/{prop}-{name}"
os.makedirs(dst, exist_ok=True)
shutil.copy(os.path.join(src, "patch.diff"), dst)
shutil.copy(os.path.join(src, "demo.rs"), dst)
notes = open(os.path.join(src, "notes.md")).read() if os.path.exists(os.path.join(src, "notes.md")) else ""
shutil.copy(os.path.join(src, "notes.md"), dst) if notes else None
meta = {"property": prop, "variant": name, "breaks": prop, "needs_to_manifest": " ".join(notes.split())[:900],
        "confirmed": res.get("confirmed"), "ran": res.get("ran"),
        "checks": res.get("checks"), "caught_by": [c for c, r in res.get("checks", {}).items() if r["exit"] == 1],
        "missed_by": [c for c, r in res.get("checks", {}).items() if r["exit"] == 0]}
json.dump(meta, open(os.path.join(dst, "meta.json"), "w"), indent=1)
print("stored", dst, "caught_by", meta["caught_by"], "missed_by", meta["missed_by"])
