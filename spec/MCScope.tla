------------------------------ MODULE MCScope ------------------------------
(***************************************************************************)
(* Bounded-exhaustive generator and self-check for namespace scoping (C09, *)
(* C10, C15): every two-level declaration layout over three prefixes       *)
(* (default, p, q) and two namespaces, with the default namespace          *)
(* declared, redeclared and undeclared (xmlns=""), every choice of the     *)
(* outer / inner element's namespace and of the namespace of an attribute  *)
(* on the inner element.  Each layout is one initial state; TLC checks on  *)
(* each that the recursive definition of InScope agrees with the           *)
(* "nearest declaring ancestor" definition and that name resolution is a   *)
(* function, and prints it as a JSON forest for the harness.               *)
(***************************************************************************)
EXTENDS XotTree, TLC, Json

CONSTANT Dump

DefaultChoices == {"-", "", "u1", "u2"}      \* "-" = not declared; "" = xmlns=""
PrefixChoices == {"-", "u1", "u2"}

E(ns, ln, p, c) == [k |-> "elem", p |-> p, c |-> c, ns |-> ns, ln |-> ln, t |-> <<>>, u |-> "", d |-> FALSE]
NSN(px, u, p) == [k |-> "nsn", p |-> p, c |-> <<>>, ns |-> "", ln |-> px, t |-> <<>>, u |-> u, d |-> FALSE]
AT(ns, ln, p) == [k |-> "attr", p |-> p, c |-> <<>>, ns |-> ns, ln |-> ln, t |-> <<118>>, u |-> "", d |-> FALSE]

Decls(d0, dp, dq) ==
    (IF d0 = "-" THEN <<>> ELSE <<<<"", d0>>>>) \o (IF dp = "-" THEN <<>> ELSE <<<<"p", dp>>>>) \o (IF dq = "-" THEN <<>> ELSE <<<<"q", dq>>>>)

Mk(ns1, D1, ns2, D2, ans) ==
    LET n1 == Len(D1)  n2 == Len(D2)
        e2 == 2 + n1
        at == e2 + n2 + 1
    IN <<E(ns1, "a", 0, [j \in 1..n1 |-> 1 + j] \o <<e2>>)>>
       \o [j \in 1..n1 |-> NSN(D1[j][1], D1[j][2], 1)]
       \o <<E(ns2, "b", 1, [j \in 1..n2 |-> e2 + j] \o <<at>>)>>
       \o [j \in 1..n2 |-> NSN(D2[j][1], D2[j][2], e2)]
       \o <<AT(ans, "c", e2)>>

VARIABLE F

Init == \E a0 \in DefaultChoices, ap \in PrefixChoices, aq \in PrefixChoices,
           b0 \in DefaultChoices, bp \in PrefixChoices, bq \in PrefixChoices,
           ns1 \in {"", "u1"}, ns2 \in {"", "u1", "u2"}, ans \in {"", "u1", "u2"} :
        F = [n |-> Mk(ns1, Decls(a0, ap, aq), ns2, Decls(b0, bp, bq), ans), cons |-> TRUE, eo |-> FALSE]
Next == UNCHANGED F
Spec == Init /\ [][Next]_F

\* second, independent definition of the in-scope bindings: for each prefix the nearest declaring ancestor-or-self
Declaring(N, i, p) == SelectSeq(Ancestors(N, i), LAMBDA x : \E b \in DeclsAt(N, x) : b[1] = p)
InScope2(N, i) ==
    LET prefixes == {"", "p", "q"} IN
    ({<<p, CHOOSE u \in {b[2] : b \in {c \in DeclsAt(N, Declaring(N, i, p)[1]) : c[1] = p}} : TRUE>> :
        p \in {q \in prefixes : Declaring(N, i, q) # <<>>}} \ {<<"", "">>}) \cup {<<"xml", XmlNs>>}

ScopeDefsAgree == \A x \in Live(F.n) : InScope(F.n, x) = InScope2(F.n, x)
ResolutionIsFunction == \A x \in Live(F.n) : \A p \in {"", "p", "q", "xml"} : Cardinality(NsForPrefix(F.n, x, p)) <= 1
ValidLayout == StructValidCore(F.n)
\* a name that is usable has a qualified spelling that resolves back to it, and conversely
UsableIffSpellable ==
    \A x \in {y \in Live(F.n) : F.n[y].k \in {"elem", "attr"}} :
        NameUsable(F.n, x) <=> \E p \in {"", "p", "q", "xml"} : ResolveQName(F.n, x, p) = F.n[x].ns /\ (F.n[x].k = "attr" /\ F.n[x].ns # "" => p # "")
DumpState == Dump => PrintT("STATE " \o ToJson(F))
=============================================================================
