----------------------------- MODULE TraceForest -----------------------------
(***************************************************************************)
(* Trace validation for engine A: every event recorded from the real xot   *)
(* crate (harness/src/forest.rs; one event per public call, logged at its  *)
(* return together with the full abstract projection of the forest) must   *)
(* be a step of L1 (XotForest).                                            *)
(*                                                                         *)
(* Rec is the ndjson trace.  Rec[i].back says how many lines back the      *)
(* event holding the pre-state is (1 inside a history; k for the k-th call *)
(* replayed from the same "reset" state); a "reset" event starts a new     *)
(* episode and carries the full initial state.                             *)
(*                                                                         *)
(* The behaviour  i = 0, 1, 2, ... Len(Rec)  consumes one event per step;  *)
(* the judgement of event i is evaluated as a state invariant and never    *)
(* stops TLC: each rejected event is PRINTED as                            *)
(*    <<"REJECT", i, property, op, detail, known-finding-id>>              *)
(* so that one run reports every deviation; /verif/lib turns lines whose   *)
(* known-finding-id is empty into VIOLATION and the others into            *)
(* KNOWN-FINDING.  Each property has its own monitor (DESIGN.md section 3, *)
(* rule 4): C04 looks only at the logged states, C06 only at refused and   *)
(* panicking calls, C05 (and C11/C12/C18/C10/C15 for their calls) only at  *)
(* successful calls inside the documented precondition.                    *)
(***************************************************************************)
EXTENDS XotKnown, TLC, Json, IOUtils

Rec == ndJsonDeserialize(IOEnv.TRACE)
OpenKnown == LET ks == JsonDeserialize(IOEnv.KNOWN) IN {ks[j] : j \in 1..Len(ks)}

VARIABLE i

PreOf(j) == Rec[j - Rec[j].back].post

Outcome(e) == [res |-> e.res, n |-> e.post.n, ret |-> e.ret, rv |-> e.rv, has |-> e.has, rvs |-> e.rvs]

\* which property a rejected successful call is charged to
PropsOfOp(op) ==
    CASE op \in {"clone_node", "clone_with_prefixes"} -> {"C12", "C05"}
      [] op = "riw" -> {"C18"}
      [] op = "cmp" -> {"C10"}
      [] op = "dedup" -> {"C15"}
      [] op \in {"parse", "parse_fragment"} -> {"C04"}
      [] op \in ElementOnlyOps \ {"set_element_name"} -> {"C11", "C05"}
      [] op \in {"append_attribute_node", "append_namespace_node", "append_namespace"} -> {"C11", "C05"}
      [] OTHER -> {"C05"}

Report(j, prop, detail) ==
    LET e == Rec[j]
        N == PreOf(j).n
        kid == KnownId(prop, e, N, PreOf(j).cons, detail)
        shown == IF kid \in OpenKnown THEN kid ELSE ""
    IN PrintT("REJECT " \o ToJson([i |-> j, prop |-> prop, op |-> e.op, a |-> e.a, res |-> e.res,
                                    detail |-> detail, known |-> shown]))

\* ids whose node record differs between two forests (diagnostics only)
DiffIds(A, B) ==
    {j \in 1..(IF Len(A) < Len(B) THEN Len(B) ELSE Len(A)) : j > Len(A) \/ j > Len(B) \/ A[j] # B[j]}

ExpectedDiff(e, N, cons, P) ==
    IF e.op \in RelationalOps THEN <<"relation">>
    ELSE LET same == {o \in EnumAllowed(e, N, cons) : o.res = e.res} IN
         IF same = {} THEN <<"res-not-allowed", {o.res : o \in EnumAllowed(e, N, cons)}>>
         ELSE LET o == CHOOSE o \in same : TRUE IN
              <<"differs-at", DiffIds(o.n, P), "ret", o.ret, e.ret, "rv", o.rv, o.has, o.rvs>>

\* --------------------------------------------------------------- C04 monitor
C04State(j) ==
    LET P == Rec[j].post.n
        sd == StructDefect(P)
    IN /\ sd # "none" => Report(j, "C04", <<"struct", sd>>)
       /\ (sd = "none" /\ ~Rec[j].post.eo /\ ~NoAdjacentText(P)) => Report(j, "C04", <<"adjacent-text">>)
       /\ Rec[j].post.rs # <<>> => Report(j, "C04", <<"parentless-node-has-siblings", Rec[j].post.rs>>)
       /\ Rec[j].post.bad # "" => Report(j, "C04", <<"unprojectable", Rec[j].post.bad>>)

C04Step(j) ==
    LET N == PreOf(j).n  P == Rec[j].post.n
        m == IF Len(N) < Len(P) THEN Len(N) ELSE Len(P)
        resurrected == {x \in 1..m : N[x].k = "rm" /\ P[x].k # "rm"}
        rekinded == {x \in 1..m : N[x].k # "rm" /\ P[x].k # "rm" /\ N[x].k # P[x].k}
    IN /\ Len(P) < Len(N) => Report(j, "C04", <<"handles-lost">>)
       /\ resurrected # {} => Report(j, "C04", <<"removed-handle-live-again", resurrected>>)
       /\ rekinded # {} => Report(j, "C04", <<"kind-changed", rekinded>>)

\* ------------------------------------------------------- C05 / C06 monitors
JudgeCall(j) ==
    LET e == Rec[j]
        pre == PreOf(j)
        N == pre.n
        cons == pre.cons
        P == e.post.n
        o == Outcome(e)
        prevSameDedup == /\ e.op = "dedup" /\ e.back = 1 /\ Rec[j - 1].op = "dedup"
                         /\ Rec[j - 1].a = e.a /\ Rec[j - 1].res = "ok"
        docPanic == e.op \in ElementOnlyOps /\ N[A1(e)].k # "elem"
    IN IF e.res = "err" THEN
           (P # N => Report(j, "C06", <<"refused-but-changed", DiffIds(N, P)>>))
       ELSE IF e.res = "panic" THEN
           /\ ~docPanic => Report(j, "C06", <<"panic">>)
           /\ (docPanic /\ P # N) => Report(j, "C06", <<"documented-panic-but-changed", DiffIds(N, P)>>)
       ELSE IF Accepts(e, N, cons, o, prevSameDedup) THEN TRUE
       ELSE IF InDomain(e, N, cons) THEN
           \A prop \in PropsOfOp(e.op) : Report(j, prop, ExpectedDiff(e, N, cons, P))
       ELSE Report(j, "X00", <<"accepted-outside-precondition">>)

Judge(j) ==
    LET e == Rec[j] IN
    IF e.op = "reset" THEN C04State(j)
    ELSE LET pre == PreOf(j) IN
         \* a corrupt pre-state was reported when it arose; L1 says nothing about calls on corrupt forests
         IF StructDefect(pre.n) # "none" THEN TRUE
         ELSE /\ C04State(j)
              /\ C04Step(j)
              /\ (StructDefect(e.post.n) \in {"none", "ns-attr-child-order", "kind-rules", "duplicate-key"}
                    /\ e.post.bad = "" => JudgeCall(j))
              /\ (e.post.cons # (IF e.op = "set_cons" THEN e.b ELSE pre.cons)
                    => Report(j, "C05", <<"consolidation-flag">>))

Init == i = 0
Next == i < Len(Rec) /\ i' = i + 1
Spec == Init /\ [][Next]_i

Judged == i = 0 \/ Judge(i)

\* all events were consumed (TLC's diameter counts the initial state)
Consumed == TLCGet("stats").diameter = Len(Rec) + 1 \/ PrintT(<<"NOTCONSUMED", TLCGet("stats").diameter, Len(Rec)>>)
=============================================================================
