#!/usr/bin/env python3
"""Development aid: confirm a seeded change (patch.diff + demo.rs) in a scratch worktree and run a check against it.
usage: seedtest.py <seed-dir> <property> [--no-confirm]"""
import json, os, shutil, subprocess, sys, time
seed, prop = sys.argv[1], sys.argv[2]
WT = "/tmp/wt/verify"
env = dict(os.environ, CARGO_TARGET_DIR="/tmp/wt/verify_target", CARGO_NET_OFFLINE="true")
def sh(cmd, cwd=None, timeout=3600, plain=False):
    p = subprocess.run(cmd, shell=True, cwd=cwd, env=(os.environ if plain else env), stdout=subprocess.PIPE, stderr=subprocess.STDOUT, text=True, timeout=timeout)
    return p.returncode, p.stdout
meta = {"property": prop, "seed": os.path.basename(os.path.dirname(seed + "/")), "ran": []}
if "--no-confirm" not in sys.argv:
    if not os.path.exists(WT):
        sh(f"git -C /repo worktree add -q --detach {WT} HEAD")
    sh("git checkout -q --detach $(git -C /repo rev-parse HEAD) && git checkout -- . && git clean -fdq tests", cwd=WT)
    shutil.copy(os.path.join(seed, "demo.rs"), os.path.join(WT, "tests", "seeded_demo.rs"))
    rc0, out0 = sh("cargo test --offline --test seeded_demo 2>&1 | tail -5", cwd=WT)
    ok_without = "test result: ok" in out0
    rc, out = sh(f"git apply {os.path.abspath(seed)}/patch.diff", cwd=WT)
    if rc != 0:
        print("PATCH DOES NOT APPLY", out); sys.exit(3)
    rc1, out1 = sh("cargo test --offline --test seeded_demo 2>&1 | tail -8", cwd=WT)
    fails_with = "FAILED" in out1 or "failed" in out1
    os.remove(os.path.join(WT, "tests", "seeded_demo.rs"))
    rc2, out2 = sh("cargo test --workspace --no-fail-fast --offline 2>&1 | grep -E '^test result|FAILED|error(\\[|:)' | awk '/test result/{p+=$4; f+=$6} !/test result/{print} END {print p, f}'", cwd=WT)
    suite = out2.strip().splitlines()[-1] if out2.strip() else "?"
    sh("git checkout -- . && git clean -fdq tests", cwd=WT)
    print(f"confirm: demo passes without={ok_without} fails with={fails_with} suite(with)={suite}")
    meta["confirmed"] = {"demo_passes_on_original": ok_without, "demo_fails_with_change": fails_with, "existing_suite_with_change": suite}
    meta["ran"] += ["cargo test --offline --test seeded_demo (original: pass; with change: fail)", "cargo test --workspace --offline with the change: " + suite]
    if not (ok_without and fails_with and suite.endswith(" 0")):
        print("NOT A VALID SEED"); print(out0[-500:]); print(out1[-800:]); sys.exit(4)
# run the check(s) against it in /repo
rc, out = sh(f"git -C /repo apply {os.path.abspath(seed)}/patch.diff")
if rc != 0:
    print("cannot apply to /repo", out); sys.exit(3)
res = {}
try:
    for p in prop.split(","):
        t0 = time.time()
        rc, out = sh(f"./check {p} --tier quick", cwd="/verif", timeout=3600, plain=True)
        viol = [l for l in out.splitlines() if l.startswith("VIOLATION")]
        rej = [l for l in out.splitlines() if "reject:" in l][:3]
        res[p] = {"exit": rc, "violations": len(viol), "wall_s": round(time.time() - t0, 1)}
        print(f"check {p}: exit={rc} violations={len(viol)} {rej[:2]}")
finally:
    sh("git -C /repo checkout -- .")
meta["checks"] = res
meta["ran"].append("git -C /repo apply patch.diff; ./check <property> --tier quick; git -C /repo checkout -- .")
json.dump(meta, open(os.path.join(seed, "result.json"), "w"), indent=1)
