------------------------------ MODULE MCScope4 ------------------------------
(***************************************************************************)
(* Four-level chains  a / b / c / d  over two namespaces and two prefixes, *)
(* prefixed declarations only: each of a, b, c declares p and / or q as    *)
(* u1 or u2 or not at all, d is an element in u1 or u2 (optionally with an *)
(* attribute in the other namespace).  This is where a declaration is      *)
(* redundant only because of a binding two levels up under ANOTHER prefix, *)
(* while the same prefix is rebound in between - the layouts in which      *)
(* removing one declaration makes another one removable (C15), a generated *)
(* prefix collides two levels down (C10), and prefix_for_namespace has to  *)
(* skip a shadowed prefix (C09).  a, b, c are in no namespace so that      *)
(* every layout without default declarations keeps them usable.            *)
(***************************************************************************)
EXTENDS XotRender, TLC, Json
CONSTANT Dump
E(ns, ln, p, c) == [k |-> "elem", p |-> p, c |-> c, ns |-> ns, ln |-> ln, t |-> <<>>, u |-> "", d |-> FALSE]
NSN(px, u, p) == [k |-> "nsn", p |-> p, c |-> <<>>, ns |-> "", ln |-> px, t |-> <<>>, u |-> u, d |-> FALSE]
AT(ns, ln, p) == [k |-> "attr", p |-> p, c |-> <<>>, ns |-> ns, ln |-> ln, t |-> <<118>>, u |-> "", d |-> FALSE]
Decls(dp, dq) == (IF dp = "-" THEN <<>> ELSE <<<<"p", dp>>>>) \o (IF dq = "-" THEN <<>> ELSE <<<<"q", dq>>>>)
Add(N, parent, nd) == [Append(N, [nd EXCEPT !.p = parent]) EXCEPT ![parent].c = Append(@, Len(N) + 1)]
RECURSIVE AddDeclNodes(_, _, _, _)
AddDeclNodes(N, e, D, j) == IF j > Len(D) THEN N ELSE AddDeclNodes(Add(N, e, NSN(D[j][1], D[j][2], 0)), e, D, j + 1)
Mk(D1, D2, D3, dn, an) ==
    LET N1 == AddDeclNodes(<<E("", "a", 0, <<>>)>>, 1, D1, 1)
        b == Len(N1) + 1
        N2 == AddDeclNodes(Add(N1, 1, E("", "b", 0, <<>>)), b, D2, 1)
        c == Len(N2) + 1
        N3 == AddDeclNodes(Add(N2, b, E("", "c", 0, <<>>)), c, D3, 1)
        dd == Len(N3) + 1
        N4 == Add(N3, c, E(dn, "d", 0, <<>>))
    IN IF an = "-" THEN N4 ELSE Add(N4, dd, AT(an, "x", 0))
VARIABLES F, outer
vars == <<F, outer>>
Blank == [n |-> <<>>, cons |-> TRUE, eo |-> FALSE]
Ch == {"-", "u1", "u2"}
Init == /\ F = Blank
        /\ outer \in [ap : Ch, aq : Ch, bp : Ch, bq : Ch]
Next == /\ F = Blank
        /\ outer' = outer
        /\ \E cp \in Ch, cq \in Ch, dn \in {"u1", "u2"}, an \in {"-", "u1", "u2"} :
             F' = [n |-> Mk(Decls(outer.ap, outer.aq), Decls(outer.bp, outer.bq), Decls(cp, cq), dn, an), cons |-> TRUE, eo |-> FALSE]
Spec == Init /\ [][Next]_vars
ValidLayout == StructValidCore(F.n)
ResolutionIsFunction == \A x \in Live(F.n) : \A p \in {"", "p", "q", "xml"} : Cardinality(NsForPrefix(F.n, x, p)) <= 1
NsUniverse == {"u1", "u2", XmlNs}
L2Scope == L2ScopeRefines(F.n) /\ L2PrefixForRefines(F.n, NsUniverse) /\ L2StackBalanced(F.n)
L2Ser == L2SerRefines(F.n)
L2Unres == L2UnresolvedRefines(F.n)
L2CmpInv == L2CmpRefines(F.n)
L2DedupInv == L2DedupRefines(F.n)
\* the round trip inside the specification (XotRender)
RT == \A x \in ElemsAndDocs(F.n) : RoundTripOk(F.n, x)
DumpState == Dump /\ F # Blank => PrintT("STATE " \o ToJson(F))
=============================================================================
