SPECIFICATION Spec
CONSTANTS
  Target = 2
  Dump = FALSE
INVARIANTS Confluent ValidAlways
CHECK_DEADLOCK FALSE
