------------------------------ MODULE MCLexHtml ------------------------------
(***************************************************************************)
(* L2: the two escapers of the HTML5 output method (serialize_text_html,   *)
(* serialize_attribute_html in src/output/html5_serializer.rs) transcribed *)
(* character by character, on every string up to MaxLen over the           *)
(* characters that matter to an HTML tokenizer.  TLC checks that what they *)
(* write obeys the rules of XotHtml (every '&' starts a reference; no raw  *)
(* '<' in text; no raw '"' in a double-quoted attribute value) and decodes *)
(* back to the input.                                                      *)
(***************************************************************************)
EXTENDS XotHtml, TLC
CONSTANTS MaxLen, Alphabet

RECURSIVE Strs(_)
Strs(n) == IF n = 0 THEN {<<>>} ELSE Strs(n - 1) \cup {Append(s, c) : s \in {t \in Strs(n - 1) : Len(t) = n - 1}, c \in Alphabet}

Amp == <<38, 97, 109, 112, 59>>
Lt == <<38, 108, 116, 59>>
Nbsp == <<38, 110, 98, 115, 112, 59>>
Apos == <<38, 97, 112, 111, 115, 59>>
Quot == <<38, 113, 117, 111, 116, 59>>

TextChar(c) == CASE c = 38 -> Amp [] c = 60 -> Lt [] c = 160 -> Nbsp [] OTHER -> <<c>>
AttrChar(c) == CASE c = 38 -> Amp [] c = 39 -> Apos [] c = 34 -> Quot [] c = 160 -> Nbsp [] OTHER -> <<c>>
RECURSIVE EscText(_), EscAttr(_)
EscText(s) == IF s = <<>> THEN <<>> ELSE TextChar(Head(s)) \o EscText(Tail(s))
EscAttr(s) == IF s = <<>> THEN <<>> ELSE AttrChar(Head(s)) \o EscAttr(Tail(s))

\* what an HTML tokenizer reads back: the five named references used above (and nothing else is written with '&')
RECURSIVE Decode(_)
Decode(s) ==
    IF s = <<>> THEN <<>>
    ELSE IF StartsAt(s, 1, Amp) THEN <<38>> \o Decode(SubSeq(s, 6, Len(s)))
    ELSE IF StartsAt(s, 1, Lt) THEN <<60>> \o Decode(SubSeq(s, 5, Len(s)))
    ELSE IF StartsAt(s, 1, Nbsp) THEN <<160>> \o Decode(SubSeq(s, 7, Len(s)))
    ELSE IF StartsAt(s, 1, Apos) THEN <<39>> \o Decode(SubSeq(s, 7, Len(s)))
    ELSE IF StartsAt(s, 1, Quot) THEN <<34>> \o Decode(SubSeq(s, 7, Len(s)))
    ELSE <<Head(s)>> \o Decode(Tail(s))

VARIABLES s, first
vars == <<s, first>>
Init == s = <<>> /\ first \in Alphabet
Next == s = <<>> /\ first' = first /\ \E t \in Strs(MaxLen - 1) : s' = <<first>> \o t
Spec == Init /\ [][Next]_vars

HtmlTextOk == LET o == EscText(s) IN AmpOk(o) /\ (\A j \in 1..Len(o) : o[j] # 60) /\ Decode(o) = s
HtmlAttrOk == LET o == EscAttr(s) IN AmpOk(o) /\ (\A j \in 1..Len(o) : o[j] # 34) /\ Decode(o) = s
=============================================================================
