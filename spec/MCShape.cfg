SPECIFICATION Spec
CONSTANTS
  MaxN = 7
  Dump = FALSE
INVARIANTS ValidShape L2AxesRefine LawsHold FollowingPrecedingConverse TraverseConsistent LevelOrderIsPermutation DocOrderTotal
CHECK_DEADLOCK FALSE
