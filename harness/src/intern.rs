//! Engine D: interning of names, namespaces and prefixes (C08).  Ids are opaque: the harness logs, per returned id,
//! its equivalence class (first-seen numbering by `==`, per table) and the strings read back through it.
use crate::rng::Rng;
use serde_json::{json, Value as J};
use std::collections::HashMap;
use std::io::Write;
use xot::{NameId, NamespaceId, PrefixId, Xot};

struct Classes {
    name: HashMap<NameId, usize>,
    ns: HashMap<NamespaceId, usize>,
    px: HashMap<PrefixId, usize>,
}

impl Classes {
    fn new() -> Self {
        Classes { name: HashMap::new(), ns: HashMap::new(), px: HashMap::new() }
    }
    fn name(&mut self, id: NameId) -> (usize, bool) {
        let n = self.name.len();
        let fresh = !self.name.contains_key(&id);
        (*self.name.entry(id).or_insert(n), fresh)
    }
    fn ns(&mut self, id: NamespaceId) -> (usize, bool) {
        let n = self.ns.len();
        let fresh = !self.ns.contains_key(&id);
        (*self.ns.entry(id).or_insert(n), fresh)
    }
    fn px(&mut self, id: PrefixId) -> (usize, bool) {
        let n = self.px.len();
        let fresh = !self.px.contains_key(&id);
        (*self.px.entry(id).or_insert(n), fresh)
    }
}

/// key as JSON {s, k, ns}: bulk member s{k} when k >= 0
fn key_str(s: &str, k: i64) -> String {
    if k >= 0 {
        format!("{s}{k}")
    } else {
        s.to_string()
    }
}

/// split a read-back string into (family, number) if it has the form <fam><digits> for the given family
fn split_key(v: &str, fam: &str, k: i64) -> J {
    if k >= 0 {
        if let Some(rest) = v.strip_prefix(fam) {
            if let Ok(n) = rest.parse::<i64>() {
                if rest == n.to_string() {
                    return json!({"s": fam, "k": n});
                }
            }
        }
    }
    json!({"s": v, "k": -1})
}

fn ev(op: &str, tbl: &str, s: &str, k: i64, ns: &str) -> serde_json::Map<String, J> {
    let mut m = serde_json::Map::new();
    m.insert("op".into(), json!(op));
    m.insert("tbl".into(), json!(tbl));
    m.insert("key".into(), json!({"s": s, "k": k, "ns": ns}));
    m.insert("has".into(), json!(false));
    m.insert("cls".into(), json!(-1));
    m.insert("fresh".into(), json!(false));
    m.insert("rb".into(), json!({"s": "", "k": -1}));
    m.insert("rbns".into(), json!(""));
    m.insert("lo".into(), json!(0));
    m.insert("hi".into(), json!(0));
    m.insert("newcls".into(), json!(0));
    m.insert("firstcls".into(), json!(-1));
    m.insert("contig".into(), json!(true));
    m.insert("must".into(), json!(false));
    m
}

fn fill(m: &mut serde_json::Map<String, J>, cl: usize, fresh: bool, rb: J) {
    m.insert("cls".into(), json!(cl));
    m.insert("fresh".into(), json!(fresh));
    m.insert("has".into(), json!(true));
    m.insert("rb".into(), rb);
}

pub fn intern_drive(seed: u64, episodes: usize, len: usize, big: usize, out: &str) {
    let mut f = std::io::BufWriter::new(std::fs::File::create(out).expect("create out"));
    let mut master = Rng::new(seed);
    let strs = ["a", "b", "c", "x1", "http://e/1", "", "xml", "space", "id", "http://www.w3.org/XML/1998/namespace", "é", "A",
                " a", "a ", " a ", "a\n", "\ta", " ", "a b", "Xml", "HTTP://E/1", "http://e/1/", "zz", "other", "n1", "n2", "q1", "v1", "w&x", "BR", "br", "DIV", "Br", "svg",
                "xml:id", "xml:lang", "p:a", "xmlns", "xmlns:p", ":a"];
    // texts for the opaque calls: accepted ones, and rejected ones that have registered new strings before the error
    // (text, what an accepted parse of it has registered: (table, string, namespace of a name))
    let texts: [(&str, &[(&str, &str, &str)]); 17] = [
        // a prefix (or the default namespace) bound A, then B, then A again on nested elements
        ("<a xmlns:p='v1'><b xmlns:p='u1'><c xmlns:p='v1'><p:e/></c><p:zz/></b></a>", &[("name", "e", "v1"), ("name", "zz", "u1")]),
        ("<a xmlns='v1'><b xmlns=''><c xmlns='v1'><q1/></c><zz/></b></a>", &[("name", "q1", "v1"), ("name", "zz", ""), ("name", "b", ""), ("name", "c", "v1")]),
        // a processing-instruction target is a plain name, whatever default namespace is in force around it
        ("<a xmlns='u1'><?zz d?><b><?q1?></b></a>", &[("name", "zz", ""), ("name", "q1", ""), ("name", "a", "u1"), ("name", "b", "u1")]),
        ("<?other x?><BR xmlns='http://www.w3.org/1999/xhtml'><br/></BR>", &[("name", "other", ""), ("name", "BR", "http://www.w3.org/1999/xhtml"), ("name", "br", "http://www.w3.org/1999/xhtml")]),
        // a prefix rebound on an inner element and used again behind it: both expanded names are registered
        ("<r xmlns:p='v1'><x xmlns:p='u1'><p:e/></x><p:e/></r>", &[("name", "e", "u1"), ("name", "e", "v1"), ("ns", "v1", ""), ("ns", "u1", "")]),
        ("<r xmlns='v1'><x xmlns='u1'><zz/></x><zz q1='1'/></r>", &[("name", "zz", "u1"), ("name", "zz", "v1"), ("name", "q1", "")]),
        ("<a xmlns='u1' xmlns:p='http://e/1' p:b='1'><p:c x1='2'/><b/></a>",
         &[("ns", "u1", ""), ("ns", "http://e/1", ""), ("px", "p", ""), ("name", "a", "u1"), ("name", "b", "u1"), ("name", "c", "http://e/1"),
           ("name", "b", "http://e/1"), ("name", "x1", "")]),
        ("<n1:a xmlns:n1='w&amp;x' xmlns='w&#38;x'><b c='1'/></n1:a>",
         &[("ns", "w&x", ""), ("px", "n1", ""), ("name", "a", "w&x"), ("name", "b", "w&x"), ("name", "c", "")]),
        ("<zz:a/>", &[]),
        ("<a><other:b/></a>", &[]),
        ("<a xmlns:n1='v1'><n1:b/><n2:c/></a>", &[]),
        ("<a xmlns:q1='v1'><q1:b></a>", &[]),
        ("<n1:a xmlns:n1='w&amp;x' xmlns='w&amp;x'><b n2:c='1'/></n1:a>", &[]),
        ("<a b='1' b='2'/>", &[]),
        ("<a><zz/><q1/></a>", &[("name", "zz", ""), ("name", "q1", ""), ("name", "a", "")]),
        ("<a xmlns:n2='v1' n2:zz='1' other='2'/>", &[("ns", "v1", ""), ("px", "n2", ""), ("name", "zz", "v1"), ("name", "other", "")]),
        ("<a xmlns:zz='v1'><zz:n1/></b>", &[]),
    ];
    for ep in 0..episodes {
        let mut r = master.fork();
        let mut x = Xot::new();
        let mut c = Classes::new();
        // builtins, observed in a fixed order
        let mut m = ev("reset", "", "", -1, "");
        let b = json!({
            "no_namespace": [c.ns(x.no_namespace()).0, x.namespace_str(x.no_namespace())],
            "xml_namespace": [c.ns(x.xml_namespace()).0, x.namespace_str(x.xml_namespace())],
            "empty_prefix": [c.px(x.empty_prefix()).0, x.prefix_str(x.empty_prefix())],
            "xml_prefix": [c.px(x.xml_prefix()).0, x.prefix_str(x.xml_prefix())],
            "xml_space": [c.name(x.xml_space_name()).0, x.name_ns_str(x.xml_space_name()).0, x.name_ns_str(x.xml_space_name()).1],
            "xml_id": [c.name(x.xml_id_name()).0, x.name_ns_str(x.xml_id_name()).0, x.name_ns_str(x.xml_id_name()).1],
        });
        m.insert("builtins".into(), b);
        writeln!(f, "{}", J::Object(m)).unwrap();
        let mut bulk_next = 0i64;
        if ep == 1 && big > 0 {
            // registering what is registered already costs nothing: the same key `big` times over in each table gives the same
            // id every time, and the registrations that follow in this episode behave as in any other
            for tbl in ["name", "ns", "px"] {
                let mut m = ev("add", tbl, "rep", -1, "");
                let (cl, fresh, back, stable) = match tbl {
                    "name" => {
                        let id = x.add_name("rep");
                        let stable = (0..big).all(|_| x.add_name("rep") == id);
                        let (cl, fr) = c.name(id);
                        (cl, fr, x.name_ns_str(id).0.to_string(), stable)
                    }
                    "ns" => {
                        let id = x.add_namespace("rep");
                        let stable = (0..big).all(|_| x.add_namespace("rep") == id);
                        let (cl, fr) = c.ns(id);
                        (cl, fr, x.namespace_str(id).to_string(), stable)
                    }
                    _ => {
                        let id = x.add_prefix("rep");
                        let stable = (0..big).all(|_| x.add_prefix("rep") == id);
                        let (cl, fr) = c.px(id);
                        (cl, fr, x.prefix_str(id).to_string(), stable)
                    }
                };
                fill(&mut m, cl, fresh, if stable { split_key(&back, "rep", -1) } else { json!({"s": "?repeated registration of one key returned different ids", "k": -1}) });
                writeln!(f, "{}", J::Object(m)).unwrap();
            }
        }
        let nsteps = if ep == 0 && big > 0 { 6 } else { len };
        // a panic of the code under test is data: it is logged as an event (the episode ends there)
        let mut last = String::new();
        let outcome = std::panic::catch_unwind(std::panic::AssertUnwindSafe(|| {
        for step in 0..nsteps {
            let roll = if ep == 0 && big > 0 { [90, 90, 90, 92, 93, 92][step % 6] } else { r.below(100) };
            let s = *r.pick(&strs);
            let nss = *r.pick(&["", "u1", "http://e/1", "http://www.w3.org/XML/1998/namespace", " u1", "u1 ", "U1", "https://www.w3.org/1999/xhtml",
                                "http://www.w3.org/1999/xhtml", "http://www.w3.org/2000/svg"]);
            last = format!("step {step} roll {roll} string {s:?} namespace {nss:?}");
            let mut m;
            if roll < 22 {
                m = ev("add", "ns", s, -1, "");
                let id = x.add_namespace(s);
                let (cl, fresh) = c.ns(id);
                m.insert("cls".into(), json!(cl));
                m.insert("fresh".into(), json!(fresh));
                m.insert("has".into(), json!(true));
                m.insert("rb".into(), split_key(x.namespace_str(id), s, -1));
            } else if roll < 40 {
                m = ev("add", "px", s, -1, "");
                let id = x.add_prefix(s);
                let (cl, fresh) = c.px(id);
                m.insert("cls".into(), json!(cl));
                m.insert("fresh".into(), json!(fresh));
                m.insert("has".into(), json!(true));
                m.insert("rb".into(), split_key(x.prefix_str(id), s, -1));
            } else if roll < 62 && r.chance(1, 3) {
                // the same registrations through src/xmlname: OwnedName::to_ref / to_create, CreateNamespace + CreateName::namespaced,
                // CreateName::prefixed / parse_full_name; every id that comes back is logged as a registration in its table
                use xot::xmlname::{CreateName, CreateNamespace, NameStrInfo, OwnedName};
                let pfx = *r.pick(&["", "p", "q1", "xml", "a", "n1", " p"]);
                let route = match r.below(5) {
                    4 if pfx.is_empty() && s.contains(':') => 3,
                    k => k,
                };
                // (prefix id, read back), (namespace id, read back), (name id)
                let (pid, nsid, nid): (Option<PrefixId>, Option<NamespaceId>, NameId) = match route {
                    0 => {
                        let o = OwnedName::new(s.to_string(), nss.to_string(), pfx.to_string());
                        let rf = o.to_ref(&mut x);
                        let ok = rf.local_name() == s && rf.namespace() == nss && rf.prefix() == pfx;
                        let t = (Some(rf.prefix_id()), Some(rf.namespace_id()), rf.name_id());
                        if !ok {
                            last = format!("{last}: OwnedName::to_ref gives a reference with other strings");
                            panic!("to_ref strings");
                        }
                        t
                    }
                    1 => {
                        let o = OwnedName::new(s.to_string(), nss.to_string(), pfx.to_string());
                        let cn = o.to_create(&mut x);
                        (None, None, cn.name_id())
                    }
                    2 => {
                        let cns = CreateNamespace::new(&mut x, pfx, nss);
                        let cn = CreateName::namespaced(&mut x, s, &cns);
                        (Some(cns.prefix_id()), Some(cns.namespace_id()), cn.name_id())
                    }
                    3 => {
                        let want = x.add_namespace(nss);
                        let cn = CreateName::prefixed(&mut x, pfx, s, |p| if p == pfx { Some(want) } else { None }).expect("prefixed");
                        (None, Some(want), cn.name_id())
                    }
                    _ => {
                        let want = x.add_namespace(nss);
                        // (only strings without a colon: the first colon separates the prefix)
                        let full = if pfx.is_empty() { s.to_string() } else { format!("{pfx}:{s}") };
                        let cn = CreateName::parse_full_name(&mut x, &full, |p| if p == pfx { Some(want) } else { None }).expect("parse_full_name");
                        (None, Some(want), cn.name_id())
                    }
                };
                if let Some(pid) = pid {
                    let mut m0 = ev("add", "px", pfx, -1, "");
                    let (cl, fresh) = c.px(pid);
                    fill(&mut m0, cl, fresh, split_key(x.prefix_str(pid), pfx, -1));
                    writeln!(f, "{}", J::Object(m0)).unwrap();
                }
                let nsid = match nsid {
                    Some(n) => n,
                    None => x.namespace(nss).unwrap_or(x.no_namespace()),
                };
                let mut m0 = ev("add", "ns", nss, -1, "");
                let (cl0, fresh0) = c.ns(nsid);
                fill(&mut m0, cl0, fresh0, split_key(x.namespace_str(nsid), nss, -1));
                writeln!(f, "{}", J::Object(m0)).unwrap();
                m = ev("add", "name", s, -1, nss);
                let (cl, fresh) = c.name(nid);
                let (l, n) = x.name_ns_str(nid);
                fill(&mut m, cl, fresh, split_key(l, s, -1));
                m.insert("rbns".into(), json!(n));
                if x.namespace_for_name(nid) != nsid {
                    m.insert("rbns".into(), json!("?inconsistent-accessors"));
                }
            } else if roll < 62 {
                m = ev("add", "name", s, -1, nss);
                let nsid = x.add_namespace(nss);
                // (the namespace registration is logged as its own event first)
                let mut m0 = ev("add", "ns", nss, -1, "");
                let (cl0, fresh0) = c.ns(nsid);
                m0.insert("cls".into(), json!(cl0));
                m0.insert("fresh".into(), json!(fresh0));
                m0.insert("has".into(), json!(true));
                m0.insert("rb".into(), split_key(x.namespace_str(nsid), nss, -1));
                writeln!(f, "{}", J::Object(m0)).unwrap();
                let id = if nss.is_empty() && r.chance(1, 2) { x.add_name(s) } else { x.add_name_ns(s, nsid) };
                let (cl, fresh) = c.name(id);
                m.insert("cls".into(), json!(cl));
                m.insert("fresh".into(), json!(fresh));
                m.insert("has".into(), json!(true));
                let (l, n) = x.name_ns_str(id);
                m.insert("rb".into(), split_key(l, s, -1));
                m.insert("rbns".into(), json!(n));
                if x.local_name_str(id) != l || x.uri_str(id) != n || x.namespace_for_name(id) != nsid {
                    m.insert("rbns".into(), json!("?inconsistent-accessors"));
                }
            } else if roll < 72 {
                m = ev("get", "ns", s, -1, "");
                if let Some(id) = x.namespace(s) {
                    let (cl, fresh) = c.ns(id);
                    m.insert("cls".into(), json!(cl));
                    m.insert("fresh".into(), json!(fresh));
                    m.insert("has".into(), json!(true));
                    m.insert("rb".into(), split_key(x.namespace_str(id), s, -1));
                }
            } else if roll < 80 {
                m = ev("get", "px", s, -1, "");
                if let Some(id) = x.prefix(s) {
                    let (cl, fresh) = c.px(id);
                    m.insert("cls".into(), json!(cl));
                    m.insert("fresh".into(), json!(fresh));
                    m.insert("has".into(), json!(true));
                    m.insert("rb".into(), split_key(x.prefix_str(id), s, -1));
                }
            } else if roll < 90 && r.chance(1, 3) {
                // the read-only way from strings to ids: OwnedName::maybe_to_ref finds what is registered and registers nothing;
                // a prefix that is not registered comes back as the empty prefix
                use xot::xmlname::OwnedName;
                let pfx = *r.pick(&["", "p", "q1", "xml", "zz", "n1"]);
                let o = OwnedName::new(s.to_string(), nss.to_string(), pfx.to_string());
                let got = o.maybe_to_ref(&x).map(|rf| (rf.name_id(), rf.prefix_id()));
                m = ev("get", "name", s, -1, nss);
                if let Some((id, pid)) = got {
                    let (cl, fresh) = c.name(id);
                    let (l, n) = x.name_ns_str(id);
                    fill(&mut m, cl, fresh, split_key(l, s, -1));
                    m.insert("rbns".into(), json!(n));
                    let registered = x.prefix(pfx).is_some();
                    let pkey = if registered { pfx } else { "" };
                    let mut m0 = ev("get", "px", pkey, -1, "");
                    let (clp, freshp) = c.px(pid);
                    fill(&mut m0, clp, freshp, split_key(x.prefix_str(pid), pkey, -1));
                    writeln!(f, "{}", J::Object(m0)).unwrap();
                }
                // nothing was registered by it: the plain lookup of the prefix says the same as before
                let mut m1 = ev("get", "px", pfx, -1, "");
                if let Some(pid) = x.prefix(pfx) {
                    let (clp, freshp) = c.px(pid);
                    fill(&mut m1, clp, freshp, split_key(x.prefix_str(pid), pfx, -1));
                }
                writeln!(f, "{}", J::Object(m1)).unwrap();
            } else if roll < 90 {
                m = ev("get", "name", s, -1, nss);
                let found = match x.namespace(nss) {
                    Some(nsid) => {
                        if nss.is_empty() && r.chance(1, 2) {
                            x.name(s)
                        } else {
                            x.name_ns(s, nsid)
                        }
                    }
                    None => None,
                };
                if let Some(id) = found {
                    let (cl, fresh) = c.name(id);
                    m.insert("cls".into(), json!(cl));
                    m.insert("fresh".into(), json!(fresh));
                    m.insert("has".into(), json!(true));
                    let (l, n) = x.name_ns_str(id);
                    m.insert("rb".into(), split_key(l, s, -1));
                    m.insert("rbns".into(), json!(n));
                }
            } else if roll < 92 {
                // bulk registration of a fresh family range in one of the tables
                let tbl = if ep == 0 && big > 0 { ["name", "ns", "px"][step % 3] } else { *r.pick(&["name", "ns", "px"]) };
                let n = if big > 0 && ep == 0 { big as i64 } else { 1 + r.below(40) as i64 };
                let (lo, hi) = (bulk_next, bulk_next + n);
                bulk_next = hi;
                m = ev("bulk", tbl, "fam", lo, "");
                m.insert("lo".into(), json!(lo));
                m.insert("hi".into(), json!(hi));
                let mut newcls = 0;
                let mut first: i64 = -1;
                let mut contig = true;
                let mut bad_rb = 0;
                for k in lo..hi {
                    let key = key_str("fam", k);
                    let (cl, fresh, back) = match tbl {
                        "name" => {
                            let id = x.add_name(&key);
                            let (cl, fr) = c.name(id);
                            (cl, fr, x.name_ns_str(id).0.to_string())
                        }
                        "ns" => {
                            let id = x.add_namespace(&key);
                            let (cl, fr) = c.ns(id);
                            (cl, fr, x.namespace_str(id).to_string())
                        }
                        _ => {
                            let id = x.add_prefix(&key);
                            let (cl, fr) = c.px(id);
                            (cl, fr, x.prefix_str(id).to_string())
                        }
                    };
                    if fresh {
                        newcls += 1;
                    }
                    if first < 0 {
                        first = cl as i64;
                    } else if cl as i64 != first + (k - lo) {
                        contig = false;
                    }
                    if back != key {
                        bad_rb += 1;
                    }
                }
                m.insert("newcls".into(), json!(newcls));
                m.insert("firstcls".into(), json!(first));
                m.insert("contig".into(), json!(contig && bad_rb == 0));
            } else if roll < 93 && bulk_next > 0 {
                // look up a member of an earlier bulk range (in all three tables: found in exactly one)
                let k = r.below(bulk_next as usize) as i64;
                let key = key_str("fam", k);
                for tbl in ["name", "ns", "px"] {
                    let mut m2 = ev("get", tbl, "fam", k, "");
                    let got: Option<(usize, bool, String)> = match tbl {
                        "name" => x.name(&key).map(|id| {
                            let (cl, fr) = c.name(id);
                            (cl, fr, x.name_ns_str(id).0.to_string())
                        }),
                        "ns" => x.namespace(&key).map(|id| {
                            let (cl, fr) = c.ns(id);
                            (cl, fr, x.namespace_str(id).to_string())
                        }),
                        _ => x.prefix(&key).map(|id| {
                            let (cl, fr) = c.px(id);
                            (cl, fr, x.prefix_str(id).to_string())
                        }),
                    };
                    if let Some((cl, fr, back)) = got {
                        m2.insert("cls".into(), json!(cl));
                        m2.insert("fresh".into(), json!(fr));
                        m2.insert("has".into(), json!(true));
                        m2.insert("rb".into(), split_key(&back, "fam", k));
                    }
                    writeln!(f, "{}", J::Object(m2)).unwrap();
                }
                continue;
            } else if roll < 94 {
                m = ev("clone", "", "", -1, "");
                x = x.clone();
            } else if roll < 97 {
                m = ev("opaque", "", "parse", -1, "");
                let (t, registered) = *r.pick(&texts);
                if r.chance(1, 3) {
                    // first an input that ends inside open elements carrying declarations (refused): whatever the parser keeps
                    // between calls, the bindings of a failed parse must not reach the next one
                    let cut = *r.pick(&["<a xmlns='v1'><b>", "<r xmlns:zz='u1' xmlns='u1'><x>", "<a xmlns='http://e/1'>", "<q1:a xmlns:q1='v1' xmlns:n1='u1'><n1:b><c>"]);
                    let _ = if r.chance(1, 2) { x.parse(cut).is_ok() } else { x.parse_fragment(cut).is_ok() };
                }
                let accepted = match r.below(3) {
                    0 => x.parse(t).is_ok(),
                    1 => x.parse_fragment(t).is_ok(),
                    _ => x.parse_bytes(t.as_bytes()).is_ok(),
                };
                writeln!(f, "{}", J::Object(m)).unwrap();
                // what an accepted parse registered implicitly must be found by the read-only lookups
                if accepted {
                    for (tbl, key, kns) in registered.iter() {
                        let mut g = ev("get", tbl, key, -1, kns);
                        g.insert("must".into(), json!(true));
                        match *tbl {
                            "ns" => {
                                if let Some(id) = x.namespace(key) {
                                    let (cl, fresh) = c.ns(id);
                                    g.insert("cls".into(), json!(cl));
                                    g.insert("fresh".into(), json!(fresh));
                                    g.insert("has".into(), json!(true));
                                    g.insert("rb".into(), split_key(x.namespace_str(id), key, -1));
                                }
                            }
                            "px" => {
                                if let Some(id) = x.prefix(key) {
                                    let (cl, fresh) = c.px(id);
                                    g.insert("cls".into(), json!(cl));
                                    g.insert("fresh".into(), json!(fresh));
                                    g.insert("has".into(), json!(true));
                                    g.insert("rb".into(), split_key(x.prefix_str(id), key, -1));
                                }
                            }
                            _ => {
                                let found = x.namespace(kns).and_then(|nsid| x.name_ns(key, nsid));
                                if let Some(id) = found {
                                    let (cl, fresh) = c.name(id);
                                    g.insert("cls".into(), json!(cl));
                                    g.insert("fresh".into(), json!(fresh));
                                    g.insert("has".into(), json!(true));
                                    let (l, n) = x.name_ns_str(id);
                                    g.insert("rb".into(), split_key(l, key, -1));
                                    g.insert("rbns".into(), json!(n));
                                }
                            }
                        }
                        writeln!(f, "{}", J::Object(g)).unwrap();
                    }
                }
                continue;
            } else {
                // html5() registers the HTML element names itself; names registered before it (also upper-case ones in
                // the namespace it takes for XHTML) must keep their ids: register, call html5(), register again
                let hn = *r.pick(&["BR", "DIV", "br", "Img", "svg"]);
                let hns = *r.pick(&["https://www.w3.org/1999/xhtml", "http://www.w3.org/1999/xhtml", ""]);
                for round in 0..2 {
                    let nsid = x.add_namespace(hns);
                    let mut m0 = ev("add", "ns", hns, -1, "");
                    let (cl0, fresh0) = c.ns(nsid);
                    m0.insert("cls".into(), json!(cl0));
                    m0.insert("fresh".into(), json!(fresh0));
                    m0.insert("has".into(), json!(true));
                    m0.insert("rb".into(), split_key(x.namespace_str(nsid), hns, -1));
                    writeln!(f, "{}", J::Object(m0)).unwrap();
                    let id = x.add_name_ns(hn, nsid);
                    let mut m1 = ev("add", "name", hn, -1, hns);
                    let (cl, fresh) = c.name(id);
                    m1.insert("cls".into(), json!(cl));
                    m1.insert("fresh".into(), json!(fresh));
                    m1.insert("has".into(), json!(true));
                    let (l, n) = x.name_ns_str(id);
                    m1.insert("rb".into(), split_key(l, hn, -1));
                    m1.insert("rbns".into(), json!(n));
                    writeln!(f, "{}", J::Object(m1)).unwrap();
                    if round == 0 {
                        let mo = ev("opaque", "", "html5", -1, "");
                        let _ = x.html5();
                        writeln!(f, "{}", J::Object(mo)).unwrap();
                    }
                }
                continue;
            }
            writeln!(f, "{}", J::Object(m)).unwrap();
        }
        }));
        if outcome.is_err() {
            let m = ev("panic", "", &last, -1, "");
            writeln!(f, "{}", J::Object(m)).unwrap();
        }
    }
    f.flush().unwrap();
}
