------------------------------ MODULE TraceHtml ------------------------------
(* Conformance of the HTML5 serialiser (C19): every event is a forest built in a real Xot, one node serialised *)
(* with html5() under given parameters, and the HTML tokens read back from the output.                       *)
EXTENDS XotHtml, TLC, Json, IOUtils
Rec == ndJsonDeserialize(IOEnv.TRACE)
OpenKnown == LET ks == JsonDeserialize(IOEnv.KNOWN) IN {ks[j] : j \in 1..Len(ks)}
VARIABLE i
\* K-C19-xhtml-namespace-https: the serialiser's XHTML namespace constant is "https://www.w3.org/1999/xhtml", so elements
\* in the real XHTML namespace are treated as foreign XML.  Signature: the tree has an element in the real XHTML
\* namespace and the output satisfies every rule when that namespace is NOT taken to be XHTML.
KnownHtml(j, detail) ==
    LET e == Rec[j]  N == e.st.n IN
    IF detail[1] = "rules" /\ (\E x \in Subtree(N, e.root) : N[x].k = "elem" /\ N[x].ns = XhtmlNs)
          /\ HtmlBadX(N, e.lc, e.root, e.toks, "https://www.w3.org/1999/xhtml") = {}
    THEN "K-C19-xhtml-namespace-https" ELSE ""
Report(j, detail) ==
    PrintT("REJECT " \o ToJson([i |-> j, prop |-> "C19", op |-> "html", a |-> <<Rec[j].root>>, res |-> Rec[j].res, detail |-> detail,
                                  known |-> IF KnownHtml(j, detail) \in OpenKnown THEN KnownHtml(j, detail) ELSE ""]))
Judge(j) ==
    LET e == Rec[j]  N == e.st.n IN
    IF StructDefect(N) # "none" THEN PrintT("REJECT " \o ToJson([i |-> j, prop |-> "TOOL", op |-> "html", a |-> <<>>, res |-> "", detail |-> <<"input state invalid">>, known |-> ""]))
    ELSE /\ e.res \notin {"ok", "err"} => Report(j, <<"panic">>)
         /\ ~e.wsame => Report(j, <<"Write entry point differs from the string">>)
         /\ (e.res = "ok" /\ PiWithGt(N, e.root)) => Report(j, <<"a processing instruction containing > was emitted">>)
         /\ (e.res = "ok" /\ HtmlBad(N, e.lc, e.root, e.toks) # {}) => Report(j, <<"rules", HtmlBad(N, e.lc, e.root, e.toks)>>)
         /\ (e.res = "ok" /\ CdataUnrequested(N, e.lc, e.root, e.toks, XhtmlNs, {<<e.cdata[q][1], e.cdata[q][2]>> : q \in 1..Len(e.cdata)}) # {}
                          /\ CdataUnrequested(N, e.lc, e.root, e.toks, "https://www.w3.org/1999/xhtml", {<<e.cdata[q][1], e.cdata[q][2]>> : q \in 1..Len(e.cdata)}) # {})
               => Report(j, <<"a CDATA section in an element that was not asked to get one",
                              CdataUnrequested(N, e.lc, e.root, e.toks, XhtmlNs, {<<e.cdata[q][1], e.cdata[q][2]>> : q \in 1..Len(e.cdata)})>>)
\* the *_with_normalizer pair under NormF: it must not panic either and its Write variant agrees with the string one
\* (C19 / the same clause as above); that the normalised output follows the rules for NormForest(N) and that a normaliser
\* that changes nothing changes no byte is behaviour beyond the listed property (prop "X-NORM": a note, never a violation)
ReportX(j, detail) ==
    PrintT("REJECT " \o ToJson([i |-> j, prop |-> "X-NORM", op |-> "html", a |-> <<Rec[j].root>>, res |-> Rec[j].nres, detail |-> detail, known |-> ""]))
JudgeNorm(j) ==
    LET e == Rec[j]  N == e.st.n  NN == NormForest(N) IN
    /\ e.nres \notin {"ok", "err"} => Report(j, <<"panic (with a normaliser)">>)
    /\ ~e.nwsame => Report(j, <<"Write entry point differs from the string (with a normaliser)">>)
    /\ (NormJudgeable(N, e.root) /\ e.res = "ok" /\ HtmlBad(N, e.lc, e.root, e.toks) = {}) =>
         /\ e.nres # "ok" => ReportX(j, <<"serialises without a normaliser but not with one", e.nres>>)
         /\ (e.nres = "ok" /\ NN = N /\ e.ntext # e.text) => ReportX(j, <<"a normaliser that changes nothing changed the output">>)
         /\ (e.nres = "ok" /\ HtmlBad(NN, e.lc, e.root, e.ntoks) # {}) => ReportX(j, <<"rules for the normalised tree", HtmlBad(NN, e.lc, e.root, e.ntoks)>>)
Init == i = 0
Next == i < Len(Rec) /\ i' = i + 1
Spec == Init /\ [][Next]_i
Judged == i = 0 \/ (Judge(i) /\ (StructDefect(Rec[i].st.n) # "none" \/ JudgeNorm(i)))
Consumed == TLCGet("stats").diameter = Len(Rec) + 1 \/ PrintT(<<"NOTCONSUMED", TLCGet("stats").diameter, Len(Rec)>>)
=============================================================================
