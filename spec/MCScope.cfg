SPECIFICATION Spec
CONSTANT Dump = FALSE
INVARIANTS ValidLayout ScopeDefsAgree ResolutionIsFunction UsableIffSpellable L2Scope L2Ser L2Unres L2CmpInv L2DedupInv RT
CHECK_DEADLOCK FALSE
