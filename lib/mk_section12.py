#!/usr/bin/env python3
"""Development aid: rewrite section 12 of DESIGN.md from seeded/*/meta.json (via killmatrix.py)."""
import os, subprocess, sys
ROOT = os.path.dirname(os.path.dirname(os.path.abspath(__file__)))
km = subprocess.run([sys.executable, os.path.join(ROOT, "lib", "killmatrix.py")], stdout=subprocess.PIPE, text=True, check=True).stdout
table, notes = km.split("\n\n", 1)
nrows = table.count("\n") - 1
nmiss_now = table.count("| MISSED |")
sec = f'''
## 12. Seeded changes: which check reports which change

**Protocol.** Ten rounds of fresh sub-agents (rounds 1-2: two agents per property with one change each; rounds 3-7: one
agent per property with two changes; rounds 8-9: one change per property; round 10, in the continuation session: one change
for each of C02, C05, C06, C07, C09, C10, C11, C12, C13, C14, C15, C16, C17, C18, C19, C20; 296 changes in all).  Each agent saw only the text of one property and a scratch
copy of the crate - nothing from /verif - and had to produce a small, realistic change that breaks the property, keeps
the crate compiling and keeps all 483 existing tests passing, needs something specific to manifest, and comes with a
demonstration test.  In rounds 4 to 9 the agents were also given the one-line titles of the changes already tried for their
property and told to go elsewhere.  Every change was confirmed here in a scratch worktree (`lib/seedtest.py`:
demonstration passes on the original and fails with the change; the whole existing suite passes with the change)
before the property's quick check was run against it (`git -C /repo apply`; `./check Cxx --tier quick`;
`git -C /repo checkout -- .`).  The kept changes are in `seeded/<Cxx>-<A..O>/` (patch.diff, demo.rs, notes.md, meta.json
with what was run and the outcome): A, B from rounds 1-2, C, D from round 3, E, F from round 4, G, H from round 5, I, J from round 6, K, L from round 7, M from round 8, N from round 9, O from round 10; all {nrows} apply to the
current tree.  The two round-1 changes for C15 patched the `DeduplicateTracker`, which no longer exists since
`deduplicate_namespaces` was rewritten (§11.3); they were reported by the C15 check at the time (one only after the
known-finding signature had been narrowed, §11.5 item 11) and are replaced by C15-C .. C15-N.

**Result.** Of the 296 changes, 218 were reported by the quick check of their property the first time it met them, 78
were not (14 of the 16 of round 10 were reported at once - by /verif as committed, except that the C16 and C19 checks already
carried the normaliser clauses of section 6; the first rejection of C16-O is the older clause "token stream does not spell the string" -
C20-O was not: the construction programs never set an attribute before a declaration on the same element; C10-O was not
either, although it is the very edit of C10-C: that one had only ever been reported through a single random input, which is the
regression pattern described below, now answered with a deterministic family; before that: 10 of 40 in rounds 1-2, 4 of 40 in round 3, 10 of 40 in round 4, 10 of 40 in round 5, 17 of 40 in round 6, 13 of 40 in round 7, 5 of 20 in round 8 and 7 of 20 in round 9, where the agents were steered away from what
had been tried).  Almost every miss was a gap in what the generators reach; a few were gaps in what is observed (C12-F, C12-J: the xml:id
index of a clone / of a cloned store; C09-G: an accessor that panics killed the observer instead of being reported;
C16-I: the Write-based entry point was only driven through a Vec; C07-J: a state that cannot be built was charged to
another property and dropped; C17-L: the value of a node was compared with the denoted document under C02 only, not
with what its span decodes to; C07-L: traversals were only observed on trees built from a description, never on trees
the crate had manipulated), three were gaps in L1 itself (C19-H: XotHtml had no rule about where a CDATA section
may appear; C15-L: the dedup relation looked at the whole tree only, so a declaration dropped because of a binding
outside the subtree passed; C05-M: the leniency about which text node survives a merge, needed for the insert family,
also covered `replace`), one was a fault of the machinery (C02-M: the check died on a REJECT line that was not valid JSON) and one in L1's domain (C10-I: Representable excluded a declaration the crate has been able to write
since 82bce36).  In all other cases the trace judge
rejected the failing input as soon as it was put in front of it.  The generators were
extended (not special-cased: each extension is a family - an alphabet, a layout dimension, a damage kind, a mutation
kind, an API variant) and the checks now report {nrows - nmiss_now} of the {nrows} kept changes (two of them through the check of the property they break most
directly rather than the one the agent was given: C14-J by C16, C10-M by C19); `meta.json` records the last run.
Being reported once is not being reported reliably: three changes that an earlier revision had caught (C17-J, C01-K,
C02-L) were missed again when unrelated generator extensions shifted the random streams - each had been caught by one or
two lucky inputs.  For those the random luck was replaced by small deterministic families (mixed-content documents,
top-level white-space fragments, one-special-piece value spellings), and the registered commands use a fixed seed.
Honest caveat for round 3: the agents' five-line summaries were read before the checks were run, and some families
were added on the strength of them beforehand (sibling after a childless declaring element in MCScope3, MCScope4,
attribute-rename mutations, `prefix-after-scope` and `charref-overflow` damage, prefixes outside ASCII); the "first
run" column counts those changes as caught although the check that caught them was one revision old.  Rounds 4 to 9 were
run blind: nothing was changed in the machinery between reading the summaries and the first run (for rounds 6 to 9 the first
run was made in a development lane - a copy of /verif at the committed state against a copy of the crate - and its
log is kept as `seeded/round6_first_run.log` / `round7_first_run.log` / `round8_first_run.log` / `round9_first_run.log`; for round 7 that copy already held the
xmlname observations of 11.2, written before the agents reported; the table's last column is the later run in /verif against /repo).

What each first-run miss led to:

{notes}
Side effects worth recording: C04-B (parser) is reported by C04 *and* C03; C12-B / C11-C (first attribute behind the
first namespace node) by C12 and C11; C08-C by C08 and C02; C20-F by C20 and C02.  Several pairs of agents
independently produced the same change (C16-A / C16-C, C16-B / C16-D, C18-B / C18-C, C05-D / C20-A / C20-C,
C12-B / C11-C, C10-B / C01-C / C16-A): the places where this code base is fragile are few and recognisable.  What the
misses have in common is the size of the generators' dictionaries, not the model: names that only start like a
reserved one, empty strings where a string is expected, one more level of nesting, one more way to call the same
thing.  Each round made the next miss rarer only for the family it added.

{table}

**Regression sweep.**  `meta.json` records the run made when a change was stored; the machinery kept changing afterwards
(new families shift the random streams; the quick sample of small forests was re-stratified in round 8).  After round 9 the
stored changes were therefore run once more against the final code, in development lanes (three copies of /verif, each
with its own copy of the crate): the 253 with letters A - M (A - L for the five forest checks whose M had just been stored; the letters N had
just been stored with the final code).  Six were no longer reported: C01-G, C01-H, C02-D, C10-H (each had been caught by a
single lucky random input; all four now have a small deterministic family of their own and are reported again), C08-A
(a prefix id narrowed to 8 bits was being tagged with the open finding K-C08, whose signature matched any large bulk
registration that goes wrong - it now matches the 16-bit wrap only) and C04-F (the change corrupts the forest so badly
that the evidence bookkeeping of the check crashed - a tool error instead of a report; the bookkeeping is robust now).
All six are reported again by the committed code.

**What the seeds did not exercise.**  No kept change needs a thorough-tier run to be seen, so the matrix says nothing
about the extra depth of the thorough tier.  No agent produced a behaviour-preserving refactoring; the no-false-alarm
side is covered by running every check with three seeds on the unchanged tree after each change to the machinery (and
by the false alarms that this did catch, §11.5).
'''
p = os.path.join(ROOT, "DESIGN.md")
s = open(p).read()
if "\n## 12. Seeded changes" in s:
    s = s[: s.index("\n## 12. Seeded changes")]
open(p, "w").write(s.rstrip("\n") + "\n" + sec)
print("section 12 rewritten:", nrows, "rows,", nmiss_now, "currently missed")
