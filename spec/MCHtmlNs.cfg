SPECIFICATION Spec
CONSTANTS
  Dump = FALSE
INVARIANTS ValidInput L2HtmlRefines L2HtmlTotal
CHECK_DEADLOCK FALSE
