SPECIFICATION Spec
CONSTANT Dump = FALSE
INVARIANTS ValidLayout ScopeDefsAgree ResolutionIsFunction UsableIffSpellable
CHECK_DEADLOCK FALSE
