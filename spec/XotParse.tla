------------------------------ MODULE XotParse ------------------------------
(***************************************************************************)
(* What a well-formed XML text DENOTES (XML 1.0 + Namespaces in XML +      *)
(* xml:id), as a state machine over lexical tokens - one step per token,   *)
(* like the parser's token loop - that builds the abstract forest of       *)
(* XotBase, the xml:id index and the source spans of every item (C02, C03, *)
(* C17).                                                                   *)
(*                                                                         *)
(* A token is a record (all fields always present):                        *)
(*   k      "decl" "stag" "etag" "text" "cdata" "comm" "pi" "ws" "dtd"     *)
(*          "junk"                                                         *)
(*   parts  the token's text as a sequence of [r |-> role, s |-> chars];   *)
(*          roles: "lit" "ename" "aname" "aval" "text" "cdata" "comment"   *)
(*          "pitarget" "pidata"                                            *)
(*   px,ln  QName as written (stag, etag); ln = target of a pi             *)
(*   empty  stag written as <a/>                                           *)
(*   attrs  the attributes in written order, xmlns declarations included:  *)
(*          [px, ln, pieces, q]  (q = the quote character)                 *)
(*   pieces spelled character data (text)                                  *)
(*   v      literal content (cdata, comm, pi data)                         *)
(*   hasdata, ver                                                          *)
(* mode = "doc" (parse) or "frag" (parse_fragment).                        *)
(***************************************************************************)
EXTENDS XotForest, XotLex

\* the namespace URIs the generators use, as characters -> as the strings the harness reports
UriTable ==
    << <<<<>>, "">>, <<<<117, 49>>, "u1">>, <<<<117, 50>>, "u2">>, <<<<117, 51>>, "u3">>,
       <<<<104, 116, 116, 112, 58, 47, 47, 120, 63, 97, 61, 49, 38, 98, 61, 50>>, "http://x?a=1&b=2">>,
       <<<<117, 32, 118>>, "u v">>, <<<<97, 32, 98, 32, 99, 32, 100>>, "a b c d">>,
       <<<<104, 116, 116, 112, 58, 47, 47, 119, 119, 119, 46, 119, 51, 46, 111, 114, 103, 47, 88, 77, 76, 47, 49, 57, 57, 56, 47, 110, 97, 109, 101, 115, 112, 97, 99, 101>>, XmlNs>> >>
UriOf(cs) ==
    LET hits == {j \in 1..Len(UriTable) : UriTable[j][1] = cs} IN
    IF hits = {} THEN "?unknown-uri" ELSE UriTable[CHOOSE j \in hits : TRUE][2]

IsDecl(a) == a.px = "xmlns" \/ (a.px = "" /\ a.ln = "xmlns")
DeclPrefix(a) == IF a.px = "xmlns" THEN a.ln ELSE ""

RECURSIVE TextOf(_), TextOfParts(_)
TextOfParts(parts) == IF parts = <<>> THEN <<>> ELSE Head(parts).s \o TextOfParts(Tail(parts))
TextOf(toks) == IF toks = <<>> THEN <<>> ELSE TextOfParts(Head(toks).parts) \o TextOf(Tail(toks))

Init0(mode) ==
    [N |-> <<NewNode("doc", "", "", <<>>, "", FALSE)>>, stack |-> <<>>, wf |-> TRUE, why |-> "", ids |-> <<>>,
     spans |-> <<>>, off |-> 0, ntok |-> 0, mode |-> mode]

Fail(st, why) == [st EXCEPT !.wf = FALSE, !.why = why]

Cur(st) == IF st.stack = <<>> THEN 1 ELSE st.stack[Len(st.stack)].id

\* byte offsets [s, e) of the parts of a token that starts at byte offset off
RECURSIVE PartSpans(_, _)
PartSpans(parts, off) ==
    IF parts = <<>> THEN <<>>
    ELSE LET n == U8Len(Head(parts).s) IN <<[s |-> off, e |-> off + n, r |-> Head(parts).r]>> \o PartSpans(Tail(parts), off + n)
TokLen(tk) == LET ps == PartSpans(tk.parts, 0) IN IF ps = <<>> THEN 0 ELSE ps[Len(ps)].e
Roles(ps, r) == SelectSeq(ps, LAMBDA p : p.r = r)

AddChild(N, parent, nd) ==
    LET f == Len(N) + 1 IN [Append(N, [nd EXCEPT !.p = parent]) EXCEPT ![parent].c = Append(@, f)]

LastKid(N, parent) == IF N[parent].c = <<>> THEN 0 ELSE N[parent].c[Len(N[parent].c)]

\* character data arriving under the current node: merged into a preceding text node
AddText(st, v, sp) ==
    LET cur == Cur(st)
        last == LastKid(st.N, cur)
    IN IF v = <<>> THEN
           \* no characters (an empty CDATA section): no node; behind a text node its span may or may not be taken to
           \* reach over it (e1: the alternative end, see TraceParse)
           IF last # 0 /\ st.N[last].k = "text"
           THEN [st EXCEPT !.spans = [j \in 1..Len(@) |-> IF @[j].id = last /\ @[j].kind = "text" THEN [@[j] EXCEPT !.e1 = sp.e] ELSE @[j]]]
           ELSE st
       ELSE IF last # 0 /\ st.N[last].k = "text"
       THEN [st EXCEPT !.N = [st.N EXCEPT ![last].t = @ \o v],
                       !.spans = [j \in 1..Len(@) |-> IF @[j].id = last /\ @[j].kind = "text" THEN [@[j] EXCEPT !.e = sp.e, !.e1 = sp.e] ELSE @[j]]]
       ELSE [st EXCEPT !.N = AddChild(st.N, cur, NewNode("text", "", "", v, "", FALSE)),
                       !.spans = Append(@, [id |-> Len(st.N) + 1, kind |-> "text", s |-> sp.s, e |-> sp.e, e1 |-> sp.e])]

RECURSIVE AddDecls(_, _, _, _)
\* namespace nodes for the declarations of a start tag, in written order
AddDecls(N, e, attrs, j) ==
    IF j > Len(attrs) THEN N
    ELSE IF IsDecl(attrs[j])
         THEN AddDecls(AddChild(N, e, NewNode("nsn", "", DeclPrefix(attrs[j]), <<>>, UriOf(Val(attrs[j].pieces, TRUE)), FALSE)), e, attrs, j + 1)
         ELSE AddDecls(N, e, attrs, j + 1)

ResolvePrefix(N, e, px) ==
    LET hits == {b[2] : b \in {c \in InScope(N, e) : c[1] = px}} IN
    IF hits = {} THEN "?unbound" ELSE CHOOSE h \in hits : TRUE

AttrNs(N, e, a) == IF a.px = "" THEN "" ELSE ResolvePrefix(N, e, a.px)
AttrValueOf(N, e, a) ==
    LET v == Val(a.pieces, TRUE) IN IF AttrNs(N, e, a) = XmlNs /\ a.ln = "id" THEN NormId(v) ELSE v

RECURSIVE AddAttrs(_, _, _, _)
AddAttrs(N, e, attrs, j) ==
    IF j > Len(attrs) THEN N
    ELSE IF IsDecl(attrs[j]) THEN AddAttrs(N, e, attrs, j + 1)
    ELSE AddAttrs(AddChild(N, e, NewNode("attr", AttrNs(N, e, attrs[j]), attrs[j].ln, AttrValueOf(N, e, attrs[j]), "", FALSE)), e, attrs, j + 1)

STag(st, tk, ps) ==
    LET cur == Cur(st)
        e == Len(st.N) + 1
        N0 == AddChild(st.N, cur, NewNode("elem", "", tk.ln, <<>>, "", FALSE))
        N1 == AddDecls(N0, e, tk.attrs, 1)
        ens == IF tk.px = "" THEN (LET d == {b[2] : b \in {c \in InScope(N1, e) : c[1] = ""}} IN IF d = {} THEN "" ELSE CHOOSE h \in d : TRUE)
               ELSE ResolvePrefix(N1, e, tk.px)
        N2 == [N1 EXCEPT ![e].ns = ens]
        N3 == AddAttrs(N2, e, tk.attrs, 1)
        plain == SelectSeq(tk.attrs, LAMBDA a : ~IsDecl(a))
        decls == SelectSeq(tk.attrs, LAMBDA a : IsDecl(a))
        idattrs == {a \in SeqRange(AttrKids(N3, e)) : N3[a].ns = XmlNs /\ N3[a].ln = "id"}
        idval == IF idattrs = {} THEN <<>> ELSE N3[CHOOSE a \in idattrs : TRUE].t
        names == Roles(ps, "aname")
        vals == Roles(ps, "aval")
        es == Roles(ps, "ename")
        \* spans of the attribute names / values, keyed by the attribute node
        plainIdx == SelectSeq([j \in 1..Len(tk.attrs) |-> j], LAMBDA j : ~IsDecl(tk.attrs[j]))
        aspans == FlattenSeq([j \in 1..Len(plainIdx) |->
                      << [id |-> AttrKids(N3, e)[j], kind |-> "an", s |-> names[plainIdx[j]].s, e |-> names[plainIdx[j]].e],
                         [id |-> AttrKids(N3, e)[j], kind |-> "av", s |-> vals[plainIdx[j]].s, e |-> vals[plainIdx[j]].e] >>])
        lastp == ps[Len(ps)]
        endspan == IF tk.empty THEN <<[id |-> e, kind |-> "ee", s |-> lastp.e - 2, e |-> lastp.e]>> ELSE <<>>
        bad ==
            IF ens = "?unbound" THEN "element prefix not declared"
            ELSE IF \E j \in 1..Len(plain) : AttrNs(N2, e, plain[j]) = "?unbound" THEN "attribute prefix not declared"
            ELSE IF \E j1, j2 \in 1..Len(decls) : j1 # j2 /\ DeclPrefix(decls[j1]) = DeclPrefix(decls[j2]) THEN "prefix declared twice"
            ELSE IF \E j1, j2 \in 1..Len(plain) : j1 # j2 /\ plain[j1].ln = plain[j2].ln /\ AttrNs(N2, e, plain[j1]) = AttrNs(N2, e, plain[j2])
                 THEN "attribute duplicated by expanded name"
            ELSE IF \E j \in 1..Len(tk.attrs) : ~PiecesOk(tk.attrs[j].pieces, TRUE, tk.attrs[j].q) THEN "bad attribute value"
            ELSE IF \E j \in 1..Len(decls) : UriOf(Val(decls[j].pieces, TRUE)) = "?unknown-uri" THEN "TOOL: uri outside the table"
            ELSE IF idattrs # {} /\ \E j \in 1..Len(st.ids) : st.ids[j].v = idval THEN "duplicate xml:id"
            ELSE IF st.mode = "doc" /\ st.stack = <<>> /\ \E c \in SeqRange(st.N[1].c) : st.N[c].k = "elem" THEN "second root element"
            ELSE ""
    IN IF bad # "" THEN Fail(st, bad)
       ELSE [st EXCEPT !.N = N3,
                       !.stack = IF tk.empty THEN @ ELSE Append(@, [id |-> e, px |-> tk.px, ln |-> tk.ln]),
                       !.ids = IF idattrs = {} THEN @ ELSE Append(@, [v |-> idval, node |-> e]),
                       !.spans = @ \o <<[id |-> e, kind |-> "es", s |-> es[1].s, e |-> es[1].e]>> \o aspans \o endspan]

Step(st, tk) ==
    LET ps == PartSpans(tk.parts, st.off)
        st1 == [st EXCEPT !.off = st.off + TokLen(tk), !.ntok = st.ntok + 1]
        top == st.stack = <<>>
    IN IF ~st.wf THEN st
       ELSE CASE tk.k = "bom" ->      \* U+FEFF in front of everything: skipped, but it counts in every offset
                   IF st.ntok # 0 \/ st.off # 0 \/ st.mode # "doc" THEN Fail(st1, "byte order mark not at the start")
                   ELSE [st EXCEPT !.off = st.off + TokLen(tk)]
              [] tk.k = "decl" ->
                   IF st.ntok # 0 THEN Fail(st1, "declaration not at the start")
                   ELSE IF tk.ver # "1.0" THEN Fail(st1, "version is not 1.0") ELSE st1
              \* white space between top-level items; inside an element (possible after a damaging edit) it is text
              [] tk.k = "ws" -> IF top /\ st.mode = "doc" THEN st1 ELSE AddText(st1, EolNorm(TextOfParts(tk.parts)), ps[1])
              [] tk.k = "stag" -> STag(st1, tk, ps)
              [] tk.k = "etag" ->
                   IF top THEN Fail(st1, "stray end tag")
                   ELSE LET t == st.stack[Len(st.stack)] IN
                        IF t.px # tk.px \/ t.ln # tk.ln THEN Fail(st1, "end tag does not match")
                        ELSE [st1 EXCEPT !.stack = SubSeq(@, 1, Len(@) - 1),
                                         !.spans = Append(@, [id |-> t.id, kind |-> "ee", s |-> ps[1].s, e |-> ps[Len(ps)].e])]
              [] tk.k = "text" ->
                   IF ~PiecesOk(tk.pieces, FALSE, 0) THEN Fail(st1, "bad character data")
                   ELSE IF top /\ st.mode = "doc" THEN Fail(st1, "text at top level")
                   ELSE AddText(st1, Val(tk.pieces, FALSE), Roles(ps, "text")[1])
              [] tk.k = "cdata" ->
                   IF top /\ st.mode = "doc" THEN Fail(st1, "text at top level")
                   ELSE AddText(st1, EolNorm(tk.v), Roles(ps, "cdata")[1])
              [] tk.k = "comm" ->
                   LET sp == Roles(ps, "comment")[1] IN
                   [st1 EXCEPT !.N = AddChild(st.N, Cur(st), NewNode("comm", "", "", tk.v, "", FALSE)),
                               !.spans = Append(@, [id |-> Len(st.N) + 1, kind |-> "comm", s |-> sp.s, e |-> sp.e])]
              [] tk.k = "pi" ->
                   LET tsp == Roles(ps, "pitarget")[1]
                       dsp == Roles(ps, "pidata")
                       id == Len(st.N) + 1
                   IN [st1 EXCEPT !.N = AddChild(st.N, Cur(st), NewNode("pi", "", tk.ln, tk.v, "", tk.hasdata)),
                                  !.spans = @ \o <<[id |-> id, kind |-> "pit", s |-> tsp.s, e |-> tsp.e]>>
                                              \o (IF tk.hasdata THEN <<[id |-> id, kind |-> "pic", s |-> dsp[1].s, e |-> dsp[1].e]>> ELSE <<>>)]
              [] tk.k = "dtd" -> Fail(st1, "DTD")
              [] OTHER -> Fail(st1, "malformed markup")

RECURSIVE Run(_, _, _)
Run(st, toks, j) == IF j > Len(toks) THEN st ELSE Run(Step(st, toks[j]), toks, j + 1)

Finish(st) ==
    IF ~st.wf THEN st
    ELSE IF st.stack # <<>> THEN Fail(st, "unclosed tag")
    ELSE IF st.mode = "doc" /\ ~\E c \in SeqRange(st.N[1].c) : st.N[c].k = "elem" THEN Fail(st, "no root element")
    ELSE st

Denote(toks, mode) == Finish(Run(Init0(mode), toks, 1))
WF(toks, mode) == Denote(toks, mode).wf


\* the spelled parts of values agree with their pieces (consistency of a generated rendering)
\* spelled text of the maximal run of character-data tokens ending at token j
RECURSIVE RunSpelling(_, _)
RunSpelling(toks, j) == IF j = 0 \/ toks[j].k # "text" THEN <<>> ELSE RunSpelling(toks, j - 1) \o Spell(toks[j].pieces)
SpellingConsistent(toks) ==
    \* a raw "]]>" must not be formed across adjacent character-data tokens (they are one run of text in the source)
    /\ \A j \in 1..Len(toks) : (toks[j].k = "text" /\ PiecesOk(toks[j].pieces, FALSE, 0) /\ (j = Len(toks) \/ toks[j + 1].k # "text"))
                                   => NoCdataEnd(RunSpelling(toks, j)) \/ \E q \in 1..j : toks[q].k = "text" /\ ~PiecesOk(toks[q].pieces, FALSE, 0)
    /\ \A j \in 1..(Len(toks) - 1) :      \* adjacent character-data tokens do not split a CR LF pair
          (toks[j].k = "text" /\ toks[j + 1].k = "text" /\ toks[j].pieces # <<>> /\ toks[j + 1].pieces # <<>>)
            => ~(toks[j].pieces[Len(toks[j].pieces)].t = "eol" /\ toks[j].pieces[Len(toks[j].pieces)].e = "cr"
                 /\ toks[j + 1].pieces[1].t = "eol" /\ toks[j + 1].pieces[1].e = "lf")
    /\ \A j \in 1..Len(toks) :
        /\ toks[j].k = "text" => Roles(toks[j].parts, "text")[1].s = Spell(toks[j].pieces)
        /\ toks[j].k = "stag" => LET vs == Roles(toks[j].parts, "aval") IN
                                 Len(vs) = Len(toks[j].attrs) /\ \A a \in 1..Len(vs) : vs[a].s = Spell(toks[j].attrs[a].pieces)
=============================================================================
