------------------------------ MODULE MCForest ------------------------------
(***************************************************************************)
(* The L1 forest state machine as a TLC model: all histories of public     *)
(* mutating calls within small constants.  TLC checks here that the        *)
(* specification itself never leaves the structurally valid forests (C04), *)
(* that removed ids stay removed and kinds are stable, that whitespace     *)
(* stripping is idempotent (C18), that every refused call is a stutter     *)
(* (C06 holds of L1 by construction), and it is the bounded-exhaustive     *)
(* generator of the small states that /verif/harness replays against the   *)
(* real crate (every reachable state is printed once as a JSON line).      *)
(***************************************************************************)
EXTENDS XotForestL2, TLC, Json

CONSTANTS MaxNode,      \* bound on the number of ids ever allocated
          Names,        \* set of <<ns, ln>>
          Texts,        \* set of character sequences
          Pfxs, Uris,
          MaxText,      \* bound on the length of any character sequence (state constraint)
          Dump          \* TRUE: print every distinct state as JSON

VARIABLE F   \* [n |-> forest, cons |-> consolidation flag, eo |-> consolidation was ever off]

Ev(op, a, nm, s, px, uri, b) == [op |-> op, a |-> a, ns |-> nm[1], ln |-> nm[2], s |-> s, px |-> px, uri |-> uri, b |-> b]
NoName == <<"", "">>

Room == Len(F.n) < MaxNode
L == Live(F.n)

Calls ==
    {Ev(op, <<x, y>>, NoName, <<>>, "", "", FALSE) :
        op \in {"append", "prepend", "insert_before", "insert_after", "replace", "any_append",
                "append_attribute_node", "append_namespace_node"}, x \in L, y \in L}
    \cup {Ev(op, <<x>>, NoName, <<>>, "", "", FALSE) : op \in {"detach", "remove", "element_unwrap", "riw"}, x \in L}
    \cup {Ev("text_set", <<x>>, NoName, t, "", "", FALSE) : x \in {y \in L : F.n[y].k = "text"}, t \in Texts}
    \cup {Ev("set_attribute", <<x>>, nm, t, "", "", FALSE) : x \in {y \in L : F.n[y].k = "elem"}, nm \in Names, t \in Texts}
    \cup {Ev("remove_attribute", <<x>>, nm, <<>>, "", "", FALSE) : x \in {y \in L : F.n[y].k = "elem"}, nm \in Names}
    \cup {Ev("set_namespace", <<x>>, NoName, <<>>, px, u, FALSE) : x \in {y \in L : F.n[y].k = "elem"}, px \in Pfxs, u \in Uris}
    \cup {Ev("remove_namespace", <<x>>, NoName, <<>>, px, "", FALSE) : x \in {y \in L : F.n[y].k = "elem"}, px \in Pfxs}
    \cup {Ev("set_cons", <<>>, NoName, <<>>, "", "", b) : b \in BOOLEAN}
    \cup (IF Room THEN
            {Ev("new_document", <<>>, NoName, <<>>, "", "", FALSE)}
            \cup {Ev("new_element", <<>>, nm, <<>>, "", "", FALSE) : nm \in Names}
            \cup {Ev("new_text", <<>>, NoName, t, "", "", FALSE) : t \in Texts}
            \cup {Ev("new_comment", <<>>, NoName, <<120>>, "", "", FALSE)}
            \cup {Ev("new_attribute_node", <<>>, nm, t, "", "", FALSE) : nm \in Names, t \in Texts}
            \cup {Ev("new_namespace_node", <<>>, NoName, <<>>, px, u, FALSE) : px \in Pfxs, u \in Uris}
            \cup {Ev("element_wrap", <<x>>, nm, <<>>, "", "", FALSE) : x \in L, nm \in Names}
            \cup {Ev("append_text", <<x>>, NoName, t, "", "", FALSE) : x \in L, t \in Texts}
          ELSE {})

Init == F = [n |-> <<>>, cons |-> TRUE, eo |-> FALSE]

Step(e, o) ==
    /\ o.res = "ok"
    /\ Len(o.n) <= MaxNode
    /\ F' = [n |-> o.n,
             cons |-> IF e.op = "set_cons" THEN e.b ELSE F.cons,
             eo |-> F.eo \/ (e.op = "set_cons" /\ ~e.b)]

Next == \E e \in Calls : \E o \in EnumAllowed(e, F.n, F.cons) : Step(e, o)

Spec == Init /\ [][Next]_F

-----------------------------------------------------------------------------
(* Invariants of L1 (C04 of the specification itself) *)

Valid == StructValidCore(F.n) /\ (~F.eo => NoAdjacentText(F.n))

\* every call outside its precondition is answered err / none / documented panic with the forest unchanged
RefusalsAreStutters ==
    \A e \in Calls : \A o \in EnumAllowed(e, F.n, F.cons) : o.res # "ok" => o.n = F.n

\* Frame property of L1 itself (the "no other node is created, lost, reordered or altered" clause of C05): whatever a
\* call does, the only old nodes whose record may change are the arguments, their subtrees, their parents (old and new)
\* and the normal siblings next to an argument's old or new position (text merges).
Near(N, x) ==
    IF x = 0 THEN {} ELSE
    {x, N[x].p} \cup Subtree(N, x) \cup {PrevNorm(N, x), NextNorm(N, x)}
    \cup (IF N[x].k \in {"doc", "elem"} /\ NormKids(N, x) # <<>>
          THEN {NormKids(N, x)[1], NormKids(N, x)[Len(NormKids(N, x))]} ELSE {})
Footprint(e, N) ==
    LET x == A1(e)  y == A2(e) IN
    (Near(N, x) \cup Near(N, y)
     \cup (IF x # 0 /\ N[x].p # 0 THEN Near(N, N[x].p) ELSE {})          \* element_unwrap / replace: junctions at the parent
     \cup (IF y # 0 /\ N[y].p # 0 THEN {N[y].p} ELSE {})) \ {0}
FrameHolds ==
    \A e \in Calls : \A o \in EnumAllowed(e, F.n, F.cons) :
        {z \in 1..Len(F.n) : z <= Len(o.n) /\ o.n[z] # F.n[z]} \subseteq Footprint(e, F.n)

\* The transcription of src/manipulation.rs (XotForestL2) does, on every reachable forest and for every argument
\* tuple, something L1 allows.
L2MovesRefine == \A e \in {c \in Calls : c.op \in L2Ops} : L2Allowed(e, F.n, F.cons)

\* clone_node as transcribed produces a fresh tree of the source's shape (text runs merged when consolidation is on)
L2CloneRefines == \A x \in Live(F.n) : L2CloneRefinesAt(F.n, F.cons, x)

\* every call has at least one allowed outcome (L1 is total)
Total == \A e \in Calls : EnumAllowed(e, F.n, F.cons) # {}

\* whitespace stripping is idempotent (C18)
RiwIdempotent ==
    \A x \in L : \A o \in Riw(F.n, x) : Riw(o.n, x) = {o}

\* removed is absorbing, kinds are stable (action property)
StableIds ==
    [][ /\ Len(F'.n) >= Len(F.n)
        /\ \A x \in 1..Len(F.n) :
             /\ F.n[x].k = "rm" => F'.n[x].k = "rm"
             /\ (F.n[x].k # "rm" /\ F'.n[x].k # "rm") => F'.n[x].k = F.n[x].k ]_F

TextBound == \A x \in 1..Len(F.n) : Len(F.n[x].t) <= MaxText

\* state dump for the spec -> code replay (one JSON line per distinct state)
DumpState == Dump => PrintT("STATE " \o ToJson(F))

-----------------------------------------------------------------------------
(* constant values for the configurations (cfg files cannot write tuples) *)
Names1 == {<<"", "a">>}
Names2 == {<<"", "a">>, <<"u1", "b">>}
TextsXS == {<<120>>, <<32>>}
TextsX == {<<120>>}
=============================================================================
