------------------------------ MODULE XotRender ------------------------------
(***************************************************************************)
(* The round trip inside the specification (C01 / C10 / C14 as a theorem   *)
(* about the modules themselves, checked by TLC on every enumerated        *)
(* layout and document):                                                   *)
(*                                                                         *)
(*   for every forest N and serialisation root top that XotSerial calls    *)
(*   Representable and whose names XotNsL2's serializer can write,         *)
(*   Denote(Render(N, top)) is well-formed and is the same tree: same      *)
(*   kinds, order, expanded names, attributes, character data, and on      *)
(*   every element exactly the declarations the serializer emitted.        *)
(*                                                                         *)
(* Render writes the tokens of XotParse's alphabet the way the crate's     *)
(* XML serializer does: names and declarations as chosen by XotNsL2        *)
(* (SerNames, Emitted), values escaped like serialize_text /               *)
(* serialize_attribute (XotLex pieces).  It ties together Representable    *)
(* (XotSerial), the name serializer (XotNsL2), Denote (XotParse), Val /    *)
(* PiecesOk (XotLex) and the canonical forms (XotTree): if one of them     *)
(* drifts, this theorem breaks in TLC before any conformance run.          *)
(***************************************************************************)
EXTENDS XotNsL2, XotSerial, XotParse

\* names of the models as characters
NameCps(s) ==
    CASE s = "a" -> <<97>> [] s = "b" -> <<98>> [] s = "c" -> <<99>> [] s = "d" -> <<100>> [] s = "s" -> <<115>> [] s = "x" -> <<120>>
      [] s = "k" -> <<107>> [] s = "p" -> <<112>> [] s = "q" -> <<113>> [] s = "xml" -> <<120, 109, 108>> [] s = "xmlns" -> <<120, 109, 108, 110, 115>>
      [] s = "n0" -> <<110, 48>> [] s = "n1" -> <<110, 49>> [] s = "n2" -> <<110, 50>> [] s = "id" -> <<105, 100>>
      [] s = "space" -> <<115, 112, 97, 99, 101>> [] s = "" -> <<>> [] OTHER -> <<63>>
NameKnown(s) == s = "" \/ NameCps(s) # <<63>>
QName(px, ln) == IF px = "" THEN NameCps(ln) ELSE NameCps(px) \o <<58>> \o NameCps(ln)

UriCps(u) ==
    LET hits == {j \in 1..Len(UriTable) : UriTable[j][2] = u} IN
    IF hits = {} THEN <<63>> ELSE UriTable[CHOOSE j \in hits : TRUE][1]

Pc(t, c, n, e) == [t |-> t, c |-> c, n |-> n, up |-> FALSE, e |-> e]
\* how the crate spells one character (entity.rs): & < always; " TAB LF CR in attribute values; CR in text
SpellChar(c, attr) ==
    CASE c = 38 -> Pc("ent", 0, "amp", "")
      [] c = 60 -> Pc("ent", 0, "lt", "")
      [] c = 34 /\ attr -> Pc("ent", 0, "quot", "")
      [] c \in {9, 10, 13} /\ attr -> Pc("dec", c, "", "")
      [] c = 13 /\ ~attr -> Pc("dec", c, "", "")
      [] c = 10 /\ ~attr -> Pc("eol", 0, "", "lf")
      [] OTHER -> Pc("lit", c, "", "")
\* > is escaped only where it would complete ]]> (serialize_text without unescaped_gt = false ... the default)
SpellValue(s, attr) ==
    [j \in 1..Len(s) |-> IF s[j] = 62 /\ ~attr /\ j >= 3 /\ s[j - 1] = 93 /\ s[j - 2] = 93 THEN Pc("ent", 0, "gt", "")
                         ELSE SpellChar(s[j], attr)]

Part(r, s) == [r |-> r, s |-> s]
Lit(s) == Part("lit", s)

AttrTok(px, ln, value) ==
    [px |-> px, ln |-> ln, pieces |-> SpellValue(value, TRUE), q |-> 34]
AttrParts(a) ==
    <<Lit(<<32>>), Part("aname", QName(a.px, a.ln)), Lit(<<61>>), Lit(<<34>>), Part("aval", Spell(a.pieces)), Lit(<<34>>)>>
RECURSIVE AttrsParts(_, _)
AttrsParts(as, j) == IF j > Len(as) THEN <<>> ELSE AttrParts(as[j]) \o AttrsParts(as, j + 1)

\* the spelled prefix of name i when top is serialised
SpelledPrefix(N, top, i) == (CHOOSE s \in SerNames(N, top) : s.id = i).r.p

ElemAttrs(N, top, i) ==
    LET em == Emitted(N, top, i)
        ak == AttrKids(N, i)
    IN [j \in 1..Len(em) |-> IF em[j][1] = "" THEN AttrTok("", "xmlns", UriCps(em[j][2])) ELSE AttrTok("xmlns", em[j][1], UriCps(em[j][2]))]
       \o [j \in 1..Len(ak) |-> AttrTok(SpelledPrefix(N, top, ak[j]), N[ak[j]].ln, N[ak[j]].t)]

RECURSIVE RenderB(_, _, _, _), RenderKids(_, _, _, _, _)
RenderB(N, top, i, d) ==
    CASE N[i].k = "doc" -> IF d = 0 THEN <<>> ELSE RenderKids(N, top, NormKids(N, i), 1, d - 1)
      [] N[i].k = "elem" ->
            LET px == SpelledPrefix(N, top, i)
                as == ElemAttrs(N, top, i)
                empty == NormKids(N, i) = <<>>
                stag == [k |-> "stag", px |-> px, ln |-> N[i].ln, empty |-> empty, attrs |-> as,
                         parts |-> <<Lit(<<60>>), Part("ename", QName(px, N[i].ln))>> \o AttrsParts(as, 1)
                                   \o <<Lit(IF empty THEN <<47, 62>> ELSE <<62>>)>>]
                etag == [k |-> "etag", px |-> px, ln |-> N[i].ln,
                         parts |-> <<Lit(<<60, 47>>), Part("ename", QName(px, N[i].ln)), Lit(<<62>>)>>]
            IN IF empty THEN <<stag>>
               ELSE <<stag>> \o (IF d = 0 THEN <<>> ELSE RenderKids(N, top, NormKids(N, i), 1, d - 1)) \o <<etag>>
      [] N[i].k = "text" ->
            LET ps == SpellValue(N[i].t, FALSE) IN <<[k |-> "text", pieces |-> ps, parts |-> <<Part("text", Spell(ps))>>]>>
      [] N[i].k = "comm" ->
            <<[k |-> "comm", v |-> N[i].t, parts |-> <<Lit(<<60, 33, 45, 45>>), Part("comment", N[i].t), Lit(<<45, 45, 62>>)>>]>>
      [] N[i].k = "pi" ->
            <<[k |-> "pi", ln |-> N[i].ln, v |-> N[i].t, hasdata |-> N[i].d,
               parts |-> <<Lit(<<60, 63>>), Part("pitarget", NameCps(N[i].ln))>>
                         \o (IF N[i].d THEN <<Lit(<<32>>), Part("pidata", N[i].t)>> ELSE <<>>) \o <<Lit(<<63, 62>>)>>]>>
      [] OTHER -> <<>>
RenderKids(N, top, kids, j, d) ==
    IF j > Len(kids) THEN <<>> ELSE RenderB(N, top, kids[j], d) \o RenderKids(N, top, kids, j + 1, d)
Render(N, top) == RenderB(N, top, top, Len(N))

\* the forest's side of the comparison: values, and per element the set of declarations written for it
RECURSIVE CanonEB(_, _, _, _), CanonEKids(_, _, _, _, _)
CanonEB(N, top, i, d) ==
    [v |-> NodeValue(N, i, "exact"),
     decls |-> IF N[i].k = "elem" THEN SeqRange(Emitted(N, top, i)) ELSE {},
     kids |-> IF d = 0 THEN <<>> ELSE CanonEKids(N, top, NormKids(N, i), 1, d - 1)]
CanonEKids(N, top, kids, j, d) ==
    IF j > Len(kids) THEN <<>> ELSE <<CanonEB(N, top, kids[j], d)>> \o CanonEKids(N, top, kids, j + 1, d)
CanonE(N, top) == CanonEB(N, top, top, Len(N))

\* where the theorem applies
RoundTripDomain(N, top) ==
    /\ N[top].k \in {"doc", "elem"}
    /\ Representable(N, top)
    /\ \A i \in Subtree(N, top) : NameKnown(N[i].ln) /\ (N[i].k = "nsn" => UriCps(N[i].u) # <<63>>)
    /\ SerOk(N, top)
    /\ \A s \in SerNames(N, top) : Faithful(N, top, s)

RoundTripOk(N, top) ==
    RoundTripDomain(N, top) =>
        LET toks == Render(N, top)
            mode == IF N[top].k = "doc" THEN "doc" ELSE "frag"
            D == Denote(toks, mode)
        IN /\ SpellingConsistent(toks)
           /\ D.wf
           /\ IF N[top].k = "doc" THEN CanonD(D.N, 1) = CanonE(N, top)
              ELSE Len(NormKids(D.N, 1)) = 1 /\ CanonD(D.N, NormKids(D.N, 1)[1]) = CanonE(N, top)
=============================================================================
