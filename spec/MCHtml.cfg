SPECIFICATION Spec
CONSTANTS
  Dump = FALSE
  Full = FALSE
INVARIANTS ValidInput
CHECK_DEADLOCK FALSE
