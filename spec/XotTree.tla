------------------------------- MODULE XotTree -------------------------------
(***************************************************************************)
(* Read-only API of xot as operators over the abstract forest: every       *)
(* traversal, axis, namespace-scope query, equality relation and           *)
(* string_value is DEFINED here from the parent/child structure alone      *)
(* (properties C07, C09, C13).  TLC checks the laws on all small trees     *)
(* (MCTree.tla) and compares what the real crate returns, node by node,    *)
(* with these operators (TraceTree.tla).                                   *)
(*                                                                         *)
(* Node edges are encoded as integers: +i = Start(i), -i = End(i).         *)
(***************************************************************************)
EXTENDS XotForest, Integers, FiniteSetsExt

Rev(s) == [j \in 1..Len(s) |-> s[Len(s) + 1 - j]]

AllOrder(N, i) == PreAll(N, Root(N, i))

Children(N, i) == NormKids(N, i)
FirstChild(N, i) == LET s == NormKids(N, i) IN IF Len(s) = 0 THEN 0 ELSE s[1]
LastChild(N, i) == LET s == NormKids(N, i) IN IF Len(s) = 0 THEN 0 ELSE s[Len(s)]

\* siblings of the same category (namespace nodes, attribute nodes, normal children)
SameCatSibs(N, i) == IF N[i].p = 0 THEN <<i>> ELSE SelectSeq(N[N[i].p].c, LAMBDA x : Cat(N, x) = Cat(N, i))
NextSib(N, i) == LET s == SameCatSibs(N, i)  k == Pos(s, i) IN IF k = Len(s) THEN 0 ELSE s[k + 1]
PrevSib(N, i) == LET s == SameCatSibs(N, i)  k == Pos(s, i) IN IF k = 1 THEN 0 ELSE s[k - 1]
FollowingSiblings(N, i) == LET s == SameCatSibs(N, i) IN SubSeq(s, Pos(s, i), Len(s))       \* including i
PrecedingSiblings(N, i) == LET s == SameCatSibs(N, i) IN Rev(SubSeq(s, 1, Pos(s, i)))       \* including i

RECURSIVE AncSeqB(_, _, _)
AncSeqB(N, i, d) == IF d = 0 \/ N[i].p = 0 THEN <<i>> ELSE <<i>> \o AncSeqB(N, N[i].p, d - 1)
Ancestors(N, i) == AncSeqB(N, i, Len(N))          \* including i, towards the root

Descendants(N, i) == SelectSeq(PreAll(N, i), LAMBDA x : IsNormal(N, x))   \* including i (if normal)
AllDescendants(N, i) == PreAll(N, i)

Following(N, i) ==
    LET o == AllOrder(N, i)  k == Pos(o, i)  sub == Subtree(N, i) IN
    SelectSeq(SubSeq(o, k + 1, Len(o)), LAMBDA x : IsNormal(N, x) /\ x \notin sub)
AllFollowing(N, i) ==
    LET o == AllOrder(N, i)  k == Pos(o, i)  sub == Subtree(N, i) IN
    SelectSeq(SubSeq(o, k + 1, Len(o)), LAMBDA x : x \notin sub)
Preceding(N, i) ==
    LET o == AllOrder(N, i)  k == Pos(o, i)  anc == AncOrSelf(N, i) IN
    Rev(SelectSeq(SubSeq(o, 1, k - 1), LAMBDA x : IsNormal(N, x) /\ x \notin anc))

ReversePreorder(N, i) ==
    LET o == AllOrder(N, i) IN Rev(SelectSeq(SubSeq(o, 1, Pos(o, i)), LAMBDA x : IsNormal(N, x)))
AllReversePreorder(N, i) == LET o == AllOrder(N, i) IN Rev(SubSeq(o, 1, Pos(o, i)))

RECURSIVE TravB(_, _, _, _), TravKids(_, _, _, _, _)
TravB(N, i, d, all) ==
    IF ~all /\ ~IsNormal(N, i) THEN <<>>
    ELSE <<i>> \o (IF d = 0 THEN <<>> ELSE TravKids(N, N[i].c, 1, d - 1, all)) \o <<0 - i>>
TravKids(N, kids, j, d, all) ==
    IF j > Len(kids) THEN <<>> ELSE TravB(N, kids[j], d, all) \o TravKids(N, kids, j + 1, d, all)
Traverse(N, i) == TravB(N, i, Len(N), FALSE)
AllTraverse(N, i) == TravB(N, i, Len(N), TRUE)
ReverseTraverse(N, i) == Rev(Traverse(N, i))
ReverseAllTraverse(N, i) == Rev(AllTraverse(N, i))

\* breadth first; 0 marks the end of a run of nodes with the same parent
RECURSIVE BfsB(_, _, _, _)
BfsB(N, queue, acc, d) ==
    IF queue = <<>> \/ d = 0 THEN acc
    ELSE BfsB(N, Tail(queue) \o NormKids(N, Head(queue)), Append(acc, Head(queue)), d - 1)
LevelOrder(N, i) ==
    LET q == BfsB(N, <<i>>, <<>>, Len(N) + 1) IN
    FlattenSeq([j \in 1..Len(q) |-> IF j > 1 /\ N[q[j]].p # N[q[j - 1]].p THEN <<0, q[j]>> ELSE <<q[j]>>]) \o <<0>>

ChildIndex(N, i) == IF N[i].p = 0 \/ ~IsNormal(N, i) THEN 0 - 1 ELSE Pos(NormKids(N, N[i].p), i) - 1

DocumentElement(N, i) == LET es == SelectSeq(NormKids(N, i), LAMBDA y : N[y].k = "elem") IN IF Len(es) = 0 THEN 0 ELSE es[1]
TopElement(N, i) ==
    IF N[i].k = "doc" THEN DocumentElement(N, i)
    ELSE LET es == SelectSeq(Ancestors(N, i), LAMBDA y : N[y].k = "elem") IN IF Len(es) = 0 THEN i ELSE es[Len(es)]

EdgeNextStart(N, i) == IF FirstChild(N, i) # 0 THEN FirstChild(N, i) ELSE 0 - i
EdgeNextEnd(N, i) == IF NextSib(N, i) # 0 THEN NextSib(N, i) ELSE 0 - N[i].p
EdgePrevEnd(N, i) == IF LastChild(N, i) # 0 THEN 0 - LastChild(N, i) ELSE i
EdgePrevStart(N, i) == IF PrevSib(N, i) # 0 THEN 0 - PrevSib(N, i) ELSE N[i].p

\* the twelve axes in the order the harness logs them
AxisSeq(N, i) ==
    << Children(N, i),
       Tail(PreNorm(N, i) \o (IF IsNormal(N, i) THEN <<>> ELSE <<0>>)),      \* descendant (without self)
       IF N[i].p = 0 THEN <<>> ELSE <<N[i].p>>,
       Tail(Ancestors(N, i)),
       Tail(FollowingSiblings(N, i)),
       Tail(PrecedingSiblings(N, i)),
       Following(N, i),
       Preceding(N, i),
       AttrKids(N, i),
       <<i>>,
       Descendants(N, i),
       Ancestors(N, i) >>

RECURSIVE ConcatTexts(_, _)
ConcatTexts(N, s) == IF s = <<>> THEN <<>> ELSE N[Head(s)].t \o ConcatTexts(N, Tail(s))
StringValue(N, i) ==
    IF N[i].k \in {"doc", "elem"} THEN ConcatTexts(N, SelectSeq(PreAll(N, i), LAMBDA x : N[x].k = "text"))
    ELSE N[i].t

-----------------------------------------------------------------------------
(* XPath document-order laws (C07), stated over the operators; TLC checks   *)
(* them on all small trees in MCTree and on every observed tree.            *)

Ordinary(N, i) == {x \in Subtree(N, Root(N, i)) : IsNormal(N, x)}
IsAscending(N, i, s) == LET o == AllOrder(N, i) IN \A a, b \in 1..Len(s) : a < b => Pos(o, s[a]) < Pos(o, s[b])
IsDescending(N, i, s) == LET o == AllOrder(N, i) IN \A a, b \in 1..Len(s) : a < b => Pos(o, s[a]) > Pos(o, s[b])
NoDup(s) == \A a, b \in 1..Len(s) : a # b => s[a] # s[b]

PartitionLaw(N, i, anc, desc, prec, fol) ==
    LET A == SeqRange(anc)  D == SeqRange(desc)  P == SeqRange(prec)  F == SeqRange(fol)
        self == IF IsNormal(N, i) THEN {i} ELSE {}
    IN /\ A \cup D \cup P \cup F \cup self = Ordinary(N, i)
       /\ A \cap D = {} /\ A \cap P = {} /\ A \cap F = {} /\ D \cap P = {} /\ D \cap F = {} /\ P \cap F = {}
       /\ i \notin A \cup D \cup P \cup F
       /\ NoDup(anc) /\ NoDup(desc) /\ NoDup(prec) /\ NoDup(fol)
       /\ IsAscending(N, i, desc) /\ IsAscending(N, i, fol)
       /\ IsDescending(N, i, anc) /\ IsDescending(N, i, prec)

LawsAt(N, i) ==
    LET ax == AxisSeq(N, i) IN PartitionLaw(N, i, ax[4], ax[2], ax[8], ax[7])

-----------------------------------------------------------------------------
(* Namespace scope (C09)                                                    *)

NsForPrefix(N, i, p) == {b[2] : b \in {c \in InScope(N, i) : c[1] = p}}        \* empty or a singleton
PrefixesFor(N, i, ns) == {b[1] : b \in {c \in InScope(N, i) : c[2] = ns}}

\* bindings in scope at i that come from declarations inside Subtree(top) only
RECURSIVE ScopeWithinB(_, _, _, _)
ScopeWithinB(N, top, i, d) ==
    LET own == DeclsAt(N, i)
        up == IF d = 0 \/ i = top \/ N[i].p = 0 THEN {} ELSE ScopeWithinB(N, top, N[i].p, d - 1)
    IN own \cup {b \in up : \A o \in own : o[1] # b[1]}
ScopeWithin(N, top, i) == {b \in ScopeWithinB(N, top, i, Len(N)) : ~(b[1] = "" /\ b[2] = "")}

\* namespaces of names in Subtree(top) that no declaration inside the subtree, in scope at the name, binds
\* (an attribute name needs a binding with a non-empty prefix)
Unresolved(N, top) ==
    {N[x].ns : x \in {y \in Named(N, top) : N[y].ns # "" /\ N[y].ns # XmlNs
                                           /\ ~\E b \in ScopeWithin(N, top, ScopeElem(N, y)) :
                                                  b[2] = N[y].ns /\ (N[y].k = "attr" => b[1] # "")}}

Inherited(N, i) == IF N[i].p = 0 THEN {} ELSE {b \in InScope(N, N[i].p) : b[2] \in Unresolved(N, i)}

\* what the qualified name  prefix:local  written at node i (an element or an attribute) means
ResolveQName(N, i, prefix) ==
    LET sc == IF ScopeElem(N, i) = 0 THEN {<<"xml", XmlNs>>} ELSE InScope(N, ScopeElem(N, i))
        hits == {b[2] : b \in {c \in sc : c[1] = prefix}}
    IN IF prefix = "" THEN (IF N[i].k = "attr" \/ hits = {} THEN "" ELSE CHOOSE h \in hits : TRUE)
       ELSE IF hits = {} THEN "?unbound" ELSE CHOOSE h \in hits : TRUE

-----------------------------------------------------------------------------
(* Canonical forms and equality (C13).  tc names the text comparison:       *)
(* "exact", "ci" (ASCII case-insensitive) or "trim" (ignore surrounding     *)
(* spaces); keep names the node filter.                                     *)

Lower(c) == IF c \in 65..90 THEN c + 32 ELSE c
NormText(t, tc) ==
    IF tc = "ci" THEN [j \in 1..Len(t) |-> Lower(t[j])]
    ELSE IF tc = "trim" THEN LET nz == {j \in 1..Len(t) : t[j] # 32} IN IF nz = {} THEN <<>> ELSE SubSeq(t, Min(nz), Max(nz))
    ELSE t

Keep(N, i, keep) ==
    CASE keep = "all" -> TRUE
      [] keep = "nocomment" -> N[i].k # "comm"
      [] keep = "nopi" -> N[i].k # "pi"
      [] keep = "elemtext" -> N[i].k \in {"elem", "text"}
      [] keep = "notb" -> ~(N[i].k = "elem" /\ N[i].ns = "" /\ N[i].ln = "b")

\* value of a single node (what advanced_compare_value looks at)
NodeValue(N, i, tc) ==
    LET V(k, ns, ln, t, d, u, attrs) == [k |-> k, ns |-> ns, ln |-> ln, t |-> t, d |-> d, u |-> u, attrs |-> attrs] IN
    CASE N[i].k = "doc" -> V("doc", "", "", <<>>, FALSE, "", {})
      [] N[i].k = "elem" -> V("elem", N[i].ns, N[i].ln, <<>>, FALSE, "",
                              {<<N[a].ns, N[a].ln, NormText(N[a].t, tc)>> : a \in SeqRange(AttrKids(N, i))})
      [] N[i].k = "text" -> V("text", "", "", NormText(N[i].t, tc), FALSE, "", {})
      [] N[i].k = "comm" -> V("comm", "", "", N[i].t, FALSE, "", {})
      [] N[i].k = "pi" -> V("pi", N[i].ns, N[i].ln, NormText(N[i].t, tc), N[i].d, "", {})
      [] N[i].k = "attr" -> V("attr", N[i].ns, N[i].ln, NormText(N[i].t, tc), FALSE, "", {})
      [] N[i].k = "nsn" -> V("nsn", "", N[i].ln, <<>>, FALSE, N[i].u, {})
      [] OTHER -> V("rm", "", "", <<>>, FALSE, "", {})

\* canonical form of the filtered subtree: a SEQUENCE of trees (children of a filtered-out node are hoisted)
RECURSIVE CanonB(_, _, _, _, _), CanonKids(_, _, _, _, _, _)
CanonB(N, i, keep, tc, d) ==
    LET below == IF d = 0 THEN <<>> ELSE CanonKids(N, NormKids(N, i), 1, keep, tc, d - 1)
    IN IF Keep(N, i, keep) THEN <<[v |-> NodeValue(N, i, tc), kids |-> below]>> ELSE below
CanonKids(N, kids, j, keep, tc, d) ==
    IF j > Len(kids) THEN <<>> ELSE CanonB(N, kids[j], keep, tc, d) \o CanonKids(N, kids, j + 1, keep, tc, d)
Canon(N, i, keep, tc) == CanonB(N, i, keep, tc, Len(N))

DeepEqual(N, a, b) == Canon(N, a, "all", "exact") = Canon(N, b, "all", "exact")

\* canonical form that also records, per element, the set of declared bindings (round trips: C01, C03, C14)
RECURSIVE CanonDB(_, _, _), CanonDKids(_, _, _, _)
CanonDB(N, i, d) ==
    [v |-> NodeValue(N, i, "exact"), decls |-> DeclsAt(N, i),
     kids |-> IF d = 0 THEN <<>> ELSE CanonDKids(N, NormKids(N, i), 1, d - 1)]
CanonDKids(N, kids, j, d) == IF j > Len(kids) THEN <<>> ELSE <<CanonDB(N, kids[j], d)>> \o CanonDKids(N, kids, j + 1, d)
CanonD(N, i) == CanonDB(N, i, Len(N))
\* two trees (possibly in different forests) denote the same document
SameDocument(N, a, M, b) == CanonD(N, a) = CanonD(M, b)
AdvancedDeepEqual(N, a, b, keep, tc) == Canon(N, a, keep, tc) = Canon(N, b, keep, tc)
\* a comparison that is not an equivalence - "no two strings are equal" (think NaN): the supplied comparison decides
\* wherever strings are compared (text nodes, attribute values, PI data), also when a node is compared with itself
AdvancedNever(N, a, b) ==
    DeepEqual(N, a, b) /\ ~\E j \in Subtree(N, a) : N[j].k \in {"text", "attr"} \/ (N[j].k = "pi" /\ N[j].d)
DeepEqualChildren(N, a, b) ==
    LET ka == NormKids(N, a)  kb == NormKids(N, b) IN
    /\ Len(ka) = Len(kb)
    /\ \A j \in 1..Len(ka) : DeepEqual(N, ka[j], kb[j])
DeepEqualXPath(N, a, b, tc) ==
    IF (N[a].k = "elem" /\ N[b].k = "elem") \/ (N[a].k = "doc" /\ N[b].k = "doc")
    THEN AdvancedDeepEqual(N, a, b, "elemtext", tc)
    ELSE NodeValue(N, a, tc) = NodeValue(N, b, tc)
ShallowEqualIgnoring(N, a, b, ign) ==
    IF N[a].k = "elem" /\ N[b].k = "elem" THEN
        /\ N[a].ns = N[b].ns /\ N[a].ln = N[b].ln
        /\ {v \in NodeValue(N, a, "exact").attrs : <<v[1], v[2]>> \notin ign}
            = {v \in NodeValue(N, b, "exact").attrs : <<v[1], v[2]>> \notin ign}
    ELSE NodeValue(N, a, "exact") = NodeValue(N, b, "exact")


\* ---- serialisation with a normaliser (serialize_xml_*_with_normalizer, tokens(.., normalizer)) ----
\* A normaliser is a total function on strings, applied to character data and attribute values BEFORE they are
\* escaped: the output is the serialisation of the tree whose values were normalised.  NormF is the one the harness
\* plugs in (ClassNormalizer): ordinary characters become ones that need escaping, one becomes two.
NormF(c) == CASE c = 120 -> <<60>> [] c = 233 -> <<38>> [] c = 128512 -> <<93>> [] c = 121 -> <<93, 93>> [] OTHER -> <<c>>
RECURSIVE NormStr(_)
NormStr(t) == IF t = <<>> THEN <<>> ELSE NormF(Head(t)) \o NormStr(Tail(t))
NormForest(N) == [x \in 1..Len(N) |-> IF N[x].k \in {"text", "attr"} THEN [N[x] EXCEPT !.t = NormStr(@)] ELSE N[x]]
\* the crate also hands namespace names in declarations to the normaliser; the law is stated where that changes nothing
\* (namespace names NormF leaves alone), and where the normalised xml:id values are still distinct
NormStableUris == {"", "u1", "u2", "u3", XmlNs, "u v", "u\"q", "a<b", "t\tb", "l\nf", "c\rr", "u&amp;v"}
NormJudgeable(N, top) ==
    \* (anywhere in the forest: a subtree is written with the declarations it inherits)
    /\ \A x \in 1..Len(N) : N[x].k = "nsn" => N[x].u \in NormStableUris
    /\ \A x, z \in Subtree(N, top) :
          (x # z /\ N[x].k = "attr" /\ N[z].k = "attr" /\ N[x].ns = XmlNs /\ N[z].ns = XmlNs /\ N[x].ln = "id" /\ N[z].ln = "id")
              => NormStr(N[x].t) # NormStr(N[z].t)

=============================================================================
