"""Random abstract forests (the JSON shape of XotBase / harness projection) larger than TLC enumerates: deep chains,
wide fans, namespace declaration layouts with shadowing, near-duplicate subtrees.  They are inputs only: the real
crate builds them through its public API, and TLC judges what the real crate then answers."""
import copy
import random

XMLNS = "http://www.w3.org/XML/1998/namespace"


def node(k, p=0, ns="", ln="", t=None, u="", d=False):
    return {"k": k, "p": p, "c": [], "ns": ns, "ln": ln, "t": list(t or []), "u": u, "d": d}


class Forest:
    def __init__(self, cons=True):
        self.n = []
        self.cons = cons

    def add(self, nd, parent=0):
        self.n.append(nd)
        i = len(self.n)
        if parent:
            nd["p"] = parent
            c = self.n[parent - 1]["c"]
            cat = {"nsn": 1, "attr": 2}.get(nd["k"], 3)
            pos = len(c)
            for j, x in enumerate(c):
                xc = {"nsn": 1, "attr": 2}.get(self.n[x - 1]["k"], 3)
                if xc > cat:
                    pos = j
                    break
            c.insert(pos, i)
        return i

    def state(self):
        return {"n": self.n, "cons": self.cons, "eo": not self.cons, "rs": [], "bad": ""}


def cps(s):
    return [ord(c) for c in s]


NSS = ["", "u1", "u2"]
LNS = ["a", "b", "c"]
PXS = ["", "p", "q"]


def random_tree(rnd, f, size, shape="mixed", nsrich=False, parent=0, top_doc=None):
    """Grow one tree of about `size` nodes under a new root; returns root id."""
    if top_doc is None:
        top_doc = rnd.random() < 0.5
    root = f.add(node("doc")) if top_doc else f.add(node("elem", ns=rnd.choice(NSS), ln=rnd.choice(LNS)))
    elems = [root]
    count = 1
    last = root
    while count < size:
        if shape == "chain":
            par = last
        elif shape == "fan":
            par = elems[0] if len(elems) < 2 else elems[1] if top_doc else elems[0]
        else:
            par = rnd.choice(elems)
        pk = f.n[par - 1]["k"]
        r = rnd.random()
        kids = f.n[par - 1]["c"]
        normal_kids = [x for x in kids if f.n[x - 1]["k"] not in ("nsn", "attr")]
        last_is_text = bool(normal_kids) and f.n[normal_kids[-1] - 1]["k"] == "text"
        if pk == "elem" and r < (0.25 if nsrich else 0.08):
            used = {f.n[x - 1]["ln"] for x in kids if f.n[x - 1]["k"] == "nsn"}
            px = rnd.choice(PXS)
            if px not in used:
                uri = rnd.choice(["u1", "u2"] + ([""] if px == "" else []) + ([XMLNS] if px != "" and rnd.random() < 0.25 else []))
                if px != "" and rnd.random() < 0.12:
                    # namespace names that need escaping inside the declaration (white space that attribute-value normalisation
                    # would turn into a space, markup characters, the quote)
                    uri = rnd.choice(["u\t3", "a\nb", "x<y", 'q"r&', "c\rd", "e  f"])
                f.add(node("nsn", ln=px, u=uri), par)
                count += 1
                if uri not in ("u1", "u2", "", XMLNS):
                    # ... and a name that lives in it
                    have = {(f.n[x - 1]["ns"], f.n[x - 1]["ln"]) for x in f.n[par - 1]["c"] if f.n[x - 1]["k"] == "attr"}
                    if rnd.random() < 0.5 or (uri, "z") in have:       # (two prefixes may name the same namespace: one attribute z)
                        elems.append(f.add(node("elem", ns=uri, ln=rnd.choice(LNS)), par))
                    else:
                        f.add(node("attr", ns=uri, ln="z", t=cps("v")), par)
                    count += 1
            continue
        if pk == "elem" and r < (0.4 if nsrich else 0.2):
            used = {(f.n[x - 1]["ns"], f.n[x - 1]["ln"]) for x in kids if f.n[x - 1]["k"] == "attr"}
            key = (rnd.choice(NSS), rnd.choice(LNS))
            if key[0] != "" and rnd.random() < 0.3:
                key = (key[0], "xmlns")          # an attribute called xmlns in a namespace is an ordinary attribute
            if rnd.random() < 0.1:
                key = (XMLNS, "space")
            elif rnd.random() < 0.08:
                key = (XMLNS, "id")
            if key == (XMLNS, "id"):
                # normalised xml:id values, each at most once per forest; white space other than #x20 is part of the value
                idvals = [v for v in ["i1", "i2", "x y", "\ti4", "i5\r", "a\tb", "\u00a0i6", "i7\u3000"] if v not in f.__dict__.setdefault("ids_used", set())]
                if key not in used and idvals:
                    v = rnd.choice(idvals)
                    f.ids_used.add(v)
                    f.add(node("attr", ns=key[0], ln=key[1], t=cps(v)), par)
                    count += 1
                continue
            if key not in used:
                val = "preserve" if key[0] == XMLNS and rnd.random() < 0.6 else rnd.choice(["", "v", "w x", "V"])
                f.add(node("attr", ns=key[0], ln=key[1], t=cps(val)), par)
                count += 1
            continue
        if r < 0.62 or (shape == "chain" and rnd.random() < 0.7):
            e = f.add(node("elem", ns=rnd.choice(NSS), ln=rnd.choice(LNS)), par)
            elems.append(e)
            last = e
            if rnd.random() < 0.04:
                # a wide element: 9 to 12 attributes at once (code paths that switch strategy with the number of entries)
                pool = [(u, l) for u in NSS for l in "defghijk"]
                for key in rnd.sample(pool, rnd.randint(9, 12)):
                    f.add(node("attr", ns=key[0], ln=key[1], t=cps(rnd.choice(["", "v", "w"]))), e)
                    count += 1
        elif r < 0.82:
            if last_is_text and f.cons:
                continue
            f.add(node("text", t=cps(rnd.choice(["x", " ", "xy", " x ", "\n", "X"]))), par)
        elif r < 0.91:
            f.add(node("comm", t=cps(rnd.choice(["k", "x", "", "a\rb", "l1\r\nl2", "\r"]))), par)
        else:
            has = rnd.random() < 0.5
            f.add(node("pi", ln=rnd.choice(LNS + ["xml-stylesheet", "xmlx", "XmL1"]), t=cps(rnd.choice(["d", "d ", "a  b\t", "x\n", "d", "x\ry", "d\r"])) if has else [], d=has), par)
        count += 1
    return root


def copy_subtree(f, src, rnd=None, mutate=None):
    """Append a copy of Subtree(src) as a new root (ids in all-descendants order); optionally mutate one feature."""
    mapping = {}

    def rec(i, newp):
        nd = copy.deepcopy(f.n[i - 1])
        kids = nd["c"]
        nd["c"] = []
        nd["p"] = 0
        j = f.add(nd, newp)
        mapping[i] = j
        for c in kids:
            rec(c, j)
        return j

    r = rec(src, 0)
    return r, mapping


MUTATIONS = ["nest-next", "hoist-last", "nest-next", "hoist-last", "pi-data-case", "pi-data-pad", "pi-data-case", "pi-data-pad", "attr-rename", "attr-rename-empty", "pi-target", "pi-data", "comment-text", "name", "namespace", "attr-value", "extra-attr", "text-char", "comment", "child-order", "prefix-only", "decl-only",
             "attr-order", "case", "spaces", "drop-comment", "none"]


def mutate(f, root, rnd):
    """Change exactly one feature inside the subtree rooted at root; returns the mutation name applied."""
    ids = []

    def walk(i):
        ids.append(i)
        for c in f.n[i - 1]["c"]:
            walk(c)

    walk(root)
    m = rnd.choice(MUTATIONS)
    elems = [i for i in ids if f.n[i - 1]["k"] == "elem"]
    texts = [i for i in ids if f.n[i - 1]["k"] == "text"]
    attrs = [i for i in ids if f.n[i - 1]["k"] == "attr"]
    comms = [i for i in ids if f.n[i - 1]["k"] == "comm"]
    nsn = [i for i in ids if f.n[i - 1]["k"] == "nsn"]
    try:
        pis = [i for i in ids if f.n[i - 1]["k"] == "pi"]
        if m in ("pi-data-case", "pi-data-pad") and pis:
            # differences only a text comparison can bridge: letter case, surrounding spaces
            x = rnd.choice(pis)
            if not f.n[x - 1]["d"]:
                f.n[x - 1]["d"], f.n[x - 1]["t"] = True, [100]
            tt = f.n[x - 1]["t"]
            f.n[x - 1]["t"] = [c - 32 if 97 <= c <= 122 else c for c in tt] if m == "pi-data-case" else tt + [32]
        elif m == "pi-target" and pis:
            x = rnd.choice(pis)
            f.n[x - 1]["ln"] = rnd.choice([q for q in LNS + ["alpha"] if q != f.n[x - 1]["ln"]])
        elif m == "pi-data" and pis:
            x = rnd.choice(pis)
            if f.n[x - 1]["d"]:
                f.n[x - 1]["t"] = f.n[x - 1]["t"] + [122]
            else:
                f.n[x - 1]["d"], f.n[x - 1]["t"] = True, [100]
        elif m == "comment-text" and comms:
            x = rnd.choice(comms)
            f.n[x - 1]["t"] = f.n[x - 1]["t"] + [122]
        elif m == "name" and elems:
            e = rnd.choice(elems)
            f.n[e - 1]["ln"] = rnd.choice([x for x in LNS if x != f.n[e - 1]["ln"]])
        elif m == "namespace" and elems:
            e = rnd.choice(elems)
            f.n[e - 1]["ns"] = rnd.choice([x for x in NSS if x != f.n[e - 1]["ns"]])
        elif m in ("attr-rename", "attr-rename-empty") and attrs:
            # same number of attributes, one of them under another name (optionally with an empty value)
            a = rnd.choice(attrs)
            p = f.n[a - 1]["p"]
            used = {(f.n[x - 1]["ns"], f.n[x - 1]["ln"]) for x in f.n[p - 1]["c"] if f.n[x - 1]["k"] == "attr"}
            free = [(u, l) for u in NSS for l in LNS + ["d"] if (u, l) not in used]
            if free and f.n[a - 1]["ns"] != XMLNS:
                f.n[a - 1]["ns"], f.n[a - 1]["ln"] = rnd.choice(free)
                if m == "attr-rename-empty":
                    f.n[a - 1]["t"] = []
        elif m == "attr-value" and attrs:
            a = rnd.choice(attrs)
            f.n[a - 1]["t"] = f.n[a - 1]["t"] + [122]
        elif m == "extra-attr" and elems:
            e = rnd.choice(elems)
            used = {(f.n[x - 1]["ns"], f.n[x - 1]["ln"]) for x in f.n[e - 1]["c"] if f.n[x - 1]["k"] == "attr"}
            free = [(a, b) for a in NSS for b in LNS if (a, b) not in used]
            if free:
                k = rnd.choice(free)
                f.add(node("attr", ns=k[0], ln=k[1], t=cps("v")), e)
        elif m == "text-char" and texts:
            t = rnd.choice(texts)
            f.n[t - 1]["t"] = f.n[t - 1]["t"] + [121]
        elif m == "case" and texts:
            t = rnd.choice(texts)
            f.n[t - 1]["t"] = [c - 32 if 97 <= c <= 122 else c + 32 if 65 <= c <= 90 else c for c in f.n[t - 1]["t"]]
        elif m == "spaces" and texts:
            t = rnd.choice(texts)
            f.n[t - 1]["t"] = [32] + f.n[t - 1]["t"] + [32]
        elif m == "comment" and elems:
            e = rnd.choice(elems)
            kids = [x for x in f.n[e - 1]["c"]]
            f.add(node("comm", t=cps("new")), e)
        elif m == "drop-comment" and comms:
            c = rnd.choice(comms)
            p = f.n[c - 1]["p"]
            # keep the id (as a parentless comment) but take it out of the tree, unless that makes text adjacent
            sib = [x for x in f.n[p - 1]["c"]]
            k = sib.index(c)
            adj = 0 < k < len(sib) - 1 and f.n[sib[k - 1] - 1]["k"] == "text" and f.n[sib[k + 1] - 1]["k"] == "text"
            if not adj:
                sib.remove(c)
                f.n[p - 1]["c"] = sib
                f.n[c - 1]["p"] = 0
        elif m == "child-order" and elems:
            cands = [e for e in elems if len([x for x in f.n[e - 1]["c"] if f.n[x - 1]["k"] not in ("nsn", "attr", "text")]) >= 2]
            if cands:
                e = rnd.choice(cands)
                c = f.n[e - 1]["c"]
                idx = [j for j, x in enumerate(c) if f.n[x - 1]["k"] not in ("nsn", "attr", "text")]
                a, b = rnd.sample(idx, 2)
                c[a], c[b] = c[b], c[a]
        elif m == "prefix-only" and nsn:
            x = rnd.choice(nsn)
            p = f.n[x - 1]["p"]
            used = {f.n[y - 1]["ln"] for y in f.n[p - 1]["c"] if f.n[y - 1]["k"] == "nsn"}
            free = [q for q in ["p", "q", "r"] if q not in used]
            if free and f.n[x - 1]["ln"] != "":
                f.n[x - 1]["ln"] = rnd.choice(free)
        elif m == "decl-only" and elems:
            e = rnd.choice(elems)
            used = {f.n[y - 1]["ln"] for y in f.n[e - 1]["c"] if f.n[y - 1]["k"] == "nsn"}
            if "r" not in used:
                f.add(node("nsn", ln="r", u="u2"), e)
        elif m in ("nest-next", "hoist-last") and elems:
            # the same nodes in the same document order, nested differently: <b/><c/> against <b><c/></b>
            def normal(i):
                return [x for x in f.n[i - 1]["c"] if f.n[x - 1]["k"] not in ("nsn", "attr")]
            cands = []
            for e in elems:
                par = f.n[e - 1]["p"]
                if not par or e == root:
                    continue
                sib = normal(par)
                k = sib.index(e)
                kids = normal(e)
                if m == "nest-next" and k + 1 < len(sib) and f.n[sib[k + 1] - 1]["k"] == "elem" and (not kids or f.n[kids[-1] - 1]["k"] != "text" or True):
                    cands.append((e, sib[k + 1]))
                if m == "hoist-last" and kids and f.n[kids[-1] - 1]["k"] == "elem":
                    cands.append((e, kids[-1]))
            if cands:
                e, x = rnd.choice(cands)
                par = f.n[e - 1]["p"]
                if m == "nest-next":
                    f.n[par - 1]["c"].remove(x)
                    f.n[e - 1]["c"].append(x)
                    f.n[x - 1]["p"] = e
                else:
                    f.n[e - 1]["c"].remove(x)
                    c = f.n[par - 1]["c"]
                    c.insert(c.index(e) + 1, x)
                    f.n[x - 1]["p"] = par
        elif m == "attr-order" and elems:
            cands = [e for e in elems if len([x for x in f.n[e - 1]["c"] if f.n[x - 1]["k"] == "attr"]) >= 2]
            if cands:
                e = rnd.choice(cands)
                c = f.n[e - 1]["c"]
                idx = [j for j, x in enumerate(c) if f.n[x - 1]["k"] == "attr"]
                c[idx[0]], c[idx[-1]] = c[idx[-1]], c[idx[0]]
    except Exception:
        return "none"
    return m


def random_forest(rnd, size, shape="mixed", nsrich=False, trees=1, cons=True):
    f = Forest(cons)
    roots = [random_tree(rnd, f, max(1, size // trees), shape, nsrich) for _ in range(trees)]
    return f, roots


def sandwich_forest(rnd):
    """a parent whose children alternate text / non-text (no two text nodes adjacent), where a text node may be EMPTY
    (an explicitly created empty text node is a node like any other), plus a detached node to move in"""
    f = Forest(True)
    root = f.add(node("doc")) if rnd.random() < 0.5 else f.add(node("elem", ln="a"))
    n = rnd.choice([3, 3, 4, 5])
    text_turn = rnd.random() < 0.5
    for _ in range(n):
        if text_turn:
            f.add(node("text", t=cps(rnd.choice(["", "", "x", " ", "xy"]))), root)
        else:
            k = rnd.choice(["elem", "elem", "comm", "pi"])
            f.add(node(k, ns=rnd.choice(["", "", "u1"]) if k == "elem" else "", ln="b" if k != "comm" else "", t=cps("c") if k == "comm" else []), root)
        text_turn = not text_turn
    if rnd.random() < 0.7:
        k = rnd.choice(["text", "elem", "comm"])
        f.add(node(k, ln="c" if k == "elem" else "", t=cps(rnd.choice(["", "z"])) if k != "elem" else []))
    return f
