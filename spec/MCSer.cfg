SPECIFICATION Spec
CONSTANTS
  MaxLen = 2
  AttrMaxLen = 2
  Alphabet = {120, 60, 38, 62, 93, 34, 39, 9, 10, 13, 233, 128512}
  Dump = FALSE
INVARIANTS InDomainAlways RT
CHECK_DEADLOCK FALSE
