#!/usr/bin/env python3
"""Development aid: print the kill matrix of DESIGN.md section 12 from seeded/*/meta.json.
The 'first run' column comes from the table below (what happened the first time the property's quick check met the change,
before anything was strengthened for it); the 'now' column from meta.json (the last recorded run)."""
import json, os, re, sys

ROOT = os.path.dirname(os.path.dirname(os.path.abspath(__file__)))
# seeds the property's quick check did not report the first time, and what was changed in the machinery because of it
FIRST_MISSED = {
    "C01-A": "MCScope layouts added to the C01 / C14 round trips (xmlns=\"\" under a default declaration)",
    "C04-B": "damage catalogue: duplicate by expanded name on an element that inherits both prefixes",
    "C08-B": "interning strings with leading / trailing white space, case variants",
    "C12-B": "a state the builder cannot reconstruct is a judged construction episode, not a tool error",
    "C13-B": "near-duplicate mutations of PI target / PI data / comment text",
    "C14-A": "all bracket strings over ] > x < & CR up to length 4 (5 thorough) in every parameter combination",
    "C16-B": "suppress lists of several names in non-ascending NameId order",
    "C17-B": "invalid references late in long character data and inside attribute values",
    "C20-B": "up to three leading and trailing comments / PIs around the document element",
    "C08-C": "lookups of what an accepted parse registered implicitly (decoded namespace, names) must succeed; also caught by C02, the property it breaks most directly",
    "C08-D": "rejected parses that have already registered strings (unknown prefix, mismatched end tag ...) among the opaque calls; panics of the tables are logged as events",
    "C19-C": "HTML text / attribute values built from digraphs (&{ &# &amp &x; ]]> </) instead of single characters",
    "C19-D": "MCHtmlNs: 11 232 layouts of prefixed / generated declarations around void elements and later siblings",
}


def main():
    rows = []
    for d in sorted(os.listdir(os.path.join(ROOT, "seeded"))):
        mp = os.path.join(ROOT, "seeded", d, "meta.json")
        if not os.path.exists(mp):
            continue
        m = json.load(open(mp))
        n = m.get("needs_to_manifest", "")
        t = n.split("##")[0].strip("# ").strip()
        t = re.sub(r"^(C\d\d[- ]?(seeded )?(mutant )?[AB]|Mutant [AB]|C\d\d-[AB])\s*[-:—]+\s*", "", t, flags=re.I)
        p = open(os.path.join(ROOT, "seeded", d, "patch.diff")).read()
        files = sorted(set(re.findall(r"^\+\+\+ b/src/(\S+)", p, re.M)))
        first = "missed" if d in FIRST_MISSED else "caught"
        now = ", ".join(m["caught_by"]) or "MISSED"
        rows.append("| %s | `%s` | %s | %s | %s |" % (d, ", ".join(files), t[:150].replace("|", "/"), first, now))
    print("| seed | file | change | first run | reported now by |")
    print("|---|---|---|---|---|")
    print("\n".join(rows))
    print()
    for k, v in FIRST_MISSED.items():
        print(f"* **{k}** - {v}")


if __name__ == "__main__":
    main()
