SPECIFICATION Spec
CONSTANTS
  MaxLen = 3
  AttrMaxLen = 1
  Alphabet = {120, 62, 93, 13, 10}
  Dump = FALSE
INVARIANTS InDomainAlways RT
CHECK_DEADLOCK FALSE
