SPECIFICATION Spec
CONSTANTS
  Strings = {"a", "b", "c"}
  W = 3
  MaxOps = 5
INVARIANTS L1Injective Stable L2InjectiveWhileSmall L2Breaks
CHECK_DEADLOCK FALSE
