SPECIFICATION Spec
CONSTANTS
  Dump = FALSE
INVARIANTS ValidInput
CHECK_DEADLOCK FALSE
