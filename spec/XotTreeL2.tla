------------------------------ MODULE XotTreeL2 ------------------------------
(***************************************************************************)
(* L2: the cursor-style iterators of src/access.rs transcribed as written  *)
(* (Following, ReversePreorder with a node filter; preceding as a chain of *)
(* reversed descendant lists), over the raw sibling / child links of the   *)
(* arena.  MCTree compares them with the document-order definitions of     *)
(* XotTree on every node of every reachable forest (L2AxesRefine).         *)
(***************************************************************************)
EXTENDS XotTree

\* raw arena links: position in the parent's full child list (namespace, attribute and normal nodes)
RawNext(N, i) == IF N[i].p = 0 THEN 0 ELSE LET c == N[N[i].p].c  k == Pos(c, i) IN IF k = Len(c) THEN 0 ELSE c[k + 1]
RawPrev(N, i) == IF N[i].p = 0 THEN 0 ELSE LET c == N[N[i].p].c  k == Pos(c, i) IN IF k = 1 THEN 0 ELSE c[k - 1]
RawFirst(N, i) == IF N[i].c = <<>> THEN 0 ELSE N[i].c[1]
RawLast(N, i) == IF N[i].c = <<>> THEN 0 ELSE N[i].c[Len(N[i].c)]

\* Following::following: the next node in document order that is not a descendant
RECURSIVE ClimbNext(_, _, _)
ClimbNext(N, cur, fuel) ==
    IF fuel = 0 \/ N[cur].p = 0 THEN 0
    ELSE LET s == RawNext(N, N[cur].p) IN IF s # 0 THEN s ELSE ClimbNext(N, N[cur].p, fuel - 1)
FollowingOf(N, i) == IF RawNext(N, i) # 0 THEN RawNext(N, i) ELSE ClimbNext(N, i, Len(N))

\* Iterator::next of Following, unrolled: cur is the cursor, keep the filter (all: every node; ~all: normal nodes)
RECURSIVE FollowingRun(_, _, _, _)
FollowingRun(N, cur, all, fuel) ==
    IF cur = 0 \/ fuel = 0 THEN <<>>
    ELSE LET nxt == IF RawFirst(N, cur) # 0 THEN RawFirst(N, cur) ELSE FollowingOf(N, cur)
         IN (IF all \/ IsNormal(N, cur) THEN <<cur>> ELSE <<>>) \o FollowingRun(N, nxt, all, fuel - 1)
L2Following(N, i, all) == FollowingRun(N, FollowingOf(N, i), all, Len(N) + 1)

\* ReversePreorder: previous sibling's rightmost deepest descendant, else the parent
RECURSIVE Deepest(_, _, _)
Deepest(N, i, fuel) == IF fuel = 0 \/ RawLast(N, i) = 0 THEN i ELSE Deepest(N, RawLast(N, i), fuel - 1)
RECURSIVE RevPreRun(_, _, _, _)
RevPreRun(N, cur, all, fuel) ==
    IF cur = 0 \/ fuel = 0 THEN <<>>
    ELSE LET pv == RawPrev(N, cur)
             nxt == IF pv # 0 THEN Deepest(N, pv, Len(N)) ELSE N[cur].p
         IN (IF all \/ IsNormal(N, cur) THEN <<cur>> ELSE <<>>) \o RevPreRun(N, nxt, all, fuel - 1)
L2ReversePreorder(N, i, all) == RevPreRun(N, i, all, Len(N) + 1)

\* preceding: for the node and each ancestor, the previous (same-category) siblings nearest first, each contributing
\* its descendants reversed
RECURSIVE SibsBack(_, _, _)
SibsBack(N, cur, fuel) ==
    IF fuel = 0 THEN <<>>
    ELSE LET pv == PrevSib(N, cur) IN IF pv = 0 THEN <<>> ELSE Rev(Descendants(N, pv)) \o SibsBack(N, pv, fuel - 1)
RECURSIVE PrecUp(_, _, _)
PrecUp(N, parent, fuel) ==
    IF parent = 0 \/ fuel = 0 THEN <<>> ELSE SibsBack(N, parent, Len(N)) \o PrecUp(N, N[parent].p, fuel - 1)
L2Preceding(N, i) == PrecUp(N, i, Len(N) + 1)

\* src/levelorder.rs: a queue; an End marker (0) whenever the parent changes from one dequeued node to the next, and at the end
RECURSIVE LoRun(_, _, _, _)
LoRun(N, queue, last, fuel) ==
    IF queue = <<>> \/ fuel = 0 THEN <<0>>
    ELSE LET node == Head(queue) IN
         (IF N[last].p # N[node].p THEN <<0>> ELSE <<>>) \o <<node>> \o LoRun(N, Tail(queue) \o NormKids(N, node), node, fuel - 1)
L2LevelOrder(N, i) == LoRun(N, <<i>>, i, Len(N) + 1)

-----------------------------------------------------------------------------
(* src/valueaccess.rs: the equality family as written - two filtered edge   *)
(* streams compared pairwise (Start/Start by value, End/End for structure), *)
(* then both must be exhausted; attribute sets compared by size and lookup  *)

TextEq(a, b, tc) == NormText(a, tc) = NormText(b, tc)
L2AttrGet(N, e, ns, ln) ==
    LET hits == SelectSeq(AttrKids(N, e), LAMBDA x : N[x].ns = ns /\ N[x].ln = ln) IN IF hits = <<>> THEN 0 ELSE hits[1]
L2CompareAttributes(N, a, b, tc) ==
    /\ Len(AttrKids(N, a)) = Len(AttrKids(N, b))
    /\ \A j \in 1..Len(AttrKids(N, a)) :
          LET x == AttrKids(N, a)[j]  y == L2AttrGet(N, b, N[x].ns, N[x].ln) IN y # 0 /\ TextEq(N[x].t, N[y].t, tc)
L2CompareValue(N, a, b, tc) ==
    CASE N[a].k = "doc" /\ N[b].k = "doc" -> TRUE
      [] N[a].k = "elem" /\ N[b].k = "elem" -> N[a].ns = N[b].ns /\ N[a].ln = N[b].ln /\ L2CompareAttributes(N, a, b, tc)
      [] N[a].k = "text" /\ N[b].k = "text" -> TextEq(N[a].t, N[b].t, tc)
      [] N[a].k = "comm" /\ N[b].k = "comm" -> N[a].t = N[b].t
      [] N[a].k = "pi" /\ N[b].k = "pi" ->
             N[a].ns = N[b].ns /\ N[a].ln = N[b].ln /\ N[a].d = N[b].d /\ (N[a].d => TextEq(N[a].t, N[b].t, tc))
      [] N[a].k = "attr" /\ N[b].k = "attr" -> N[a].ns = N[b].ns /\ N[a].ln = N[b].ln /\ TextEq(N[a].t, N[b].t, tc)
      [] N[a].k = "nsn" /\ N[b].k = "nsn" -> N[a].ln = N[b].ln /\ N[a].u = N[b].u
      [] OTHER -> FALSE
L2Edges(N, i, keep) ==
    LET raw == IF IsNormal(N, i) THEN Traverse(N, i) ELSE <<i, 0 - i>> IN
    SelectSeq(raw, LAMBDA ed : Keep(N, IF ed > 0 THEN ed ELSE 0 - ed, keep))
L2AdvancedDeepEqual(N, a, b, keep, tc) ==
    LET ea == L2Edges(N, a, keep)  eb == L2Edges(N, b, keep)
        n == IF Len(ea) < Len(eb) THEN Len(ea) ELSE Len(eb)
    IN /\ \A j \in 1..n : (ea[j] > 0 /\ eb[j] > 0 /\ L2CompareValue(N, ea[j], eb[j], tc)) \/ (ea[j] < 0 /\ eb[j] < 0)
       /\ Len(ea) = Len(eb)
L2DeepEqual(N, a, b) == L2AdvancedDeepEqual(N, a, b, "all", "exact")
L2DeepEqualChildren(N, a, b) ==
    LET ka == NormKids(N, a)  kb == NormKids(N, b) IN
    /\ \A j \in 1..Len(ka) : j <= Len(kb) /\ L2DeepEqual(N, ka[j], kb[j])
    /\ Len(kb) <= Len(ka)
L2DeepEqualXPath(N, a, b, tc) ==
    IF (N[a].k = "elem" /\ N[b].k = "elem") \/ (N[a].k = "doc" /\ N[b].k = "doc")
    THEN L2AdvancedDeepEqual(N, a, b, "elemtext", tc) ELSE L2CompareValue(N, a, b, tc)
L2ShallowEqualIgnoring(N, a, b, ign) ==
    IF N[a].k = "elem" /\ N[b].k = "elem" THEN
        /\ N[a].ns = N[b].ns /\ N[a].ln = N[b].ln
        /\ LET ca == SelectSeq(AttrKids(N, a), LAMBDA x : <<N[x].ns, N[x].ln>> \notin ign)
               cb == SelectSeq(AttrKids(N, b), LAMBDA x : <<N[x].ns, N[x].ln>> \notin ign)
           IN /\ \A j \in 1..Len(ca) : LET y == L2AttrGet(N, b, N[ca[j]].ns, N[ca[j]].ln) IN y # 0 /\ N[y].t = N[ca[j]].t
              /\ Len(ca) = Len(cb)
    ELSE L2CompareValue(N, a, b, "exact")

\* the transcription agrees with the canonical-form definitions of XotTree on a pair of nodes
L2EqRefinesAt(N, a, b) ==
    /\ L2DeepEqual(N, a, b) = DeepEqual(N, a, b)
    /\ \A keep \in {"all", "nocomment", "elemtext"} : \A tc \in {"exact", "ci", "trim"} :
          L2AdvancedDeepEqual(N, a, b, keep, tc) = AdvancedDeepEqual(N, a, b, keep, tc)
    /\ (N[a].k \in {"doc", "elem"} /\ N[b].k \in {"doc", "elem"}) => L2DeepEqualChildren(N, a, b) = DeepEqualChildren(N, a, b)
    /\ \A tc \in {"exact", "ci"} : L2DeepEqualXPath(N, a, b, tc) = DeepEqualXPath(N, a, b, tc)
    /\ L2ShallowEqualIgnoring(N, a, b, {}) = ShallowEqualIgnoring(N, a, b, {})
    /\ L2ShallowEqualIgnoring(N, a, b, {<<"", "a">>}) = ShallowEqualIgnoring(N, a, b, {<<"", "a">>})

\* the transcriptions agree with the document-order definitions
L2AxesRefineAt(N, i) ==
    /\ L2Following(N, i, FALSE) = Following(N, i)
    /\ L2Following(N, i, TRUE) = AllFollowing(N, i)
    /\ L2ReversePreorder(N, i, FALSE) = (IF IsNormal(N, i) THEN ReversePreorder(N, i) ELSE Tail(Rev(SelectSeq(SubSeq(AllOrder(N, i), 1, Pos(AllOrder(N, i), i)), LAMBDA x : IsNormal(N, x) \/ x = i))))
    /\ L2ReversePreorder(N, i, TRUE) = AllReversePreorder(N, i)
    /\ IsNormal(N, i) => L2Preceding(N, i) = Preceding(N, i)
    /\ IsNormal(N, i) => L2LevelOrder(N, i) = LevelOrder(N, i)
=============================================================================
