"""Per-property check definitions.  Every check = TLC model checking of the specification + conformance of the real
crate to it (spec -> code replays of TLC-generated scenarios, code -> spec validation of recorded traces)."""
import json
import os
import random
import subprocess
import time

import vlib
from vlib import log, ToolError, WORK

# ------------------------------------------------------------------------------------------------ helpers


def canon_state(st):
    """Identity-free key of an abstract forest state: multiset of root shapes + flags (used to keep one
    representative per isomorphism class of the TLC-dumped states)."""
    n = st["n"]

    def shape(i):
        nd = n[i - 1]
        return (nd["k"], nd["ns"], nd["ln"], tuple(nd["t"]), nd["u"], nd["d"], tuple(shape(c) for c in nd["c"]))

    roots = sorted(shape(i + 1) for i, nd in enumerate(n) if nd["p"] == 0 and nd["k"] != "rm")
    removed = sum(1 for nd in n if nd["k"] == "rm")
    return (tuple(roots), min(removed, 1), st["cons"], st.get("eo", False))


def relation(n, a, b):
    """relation of node b to node a in forest n (for classifying argument tuples)"""
    if a == b:
        return "same"

    def anc(x):
        r = []
        seen = 0
        while x and seen < len(n) + 1:
            r.append(x)
            x = n[x - 1]["p"]
            seen += 1
        return r

    aa, ab = anc(a), anc(b)
    if b in aa:
        return "b-ancestor-of-a"
    if a in ab:
        return "a-ancestor-of-b"
    if n[a - 1]["p"] and n[a - 1]["p"] == n[b - 1]["p"]:
        c = n[n[a - 1]["p"] - 1]["c"]
        d = c.index(b) - c.index(a)
        return "next-sib" if d == 1 else "prev-sib" if d == -1 else "sibling"
    if aa[-1] == ab[-1]:
        return "same-tree"
    return "other-tree"


def event_class(lines, idx):
    ev = json.loads(lines[idx])
    if ev["op"] == "reset":
        return None
    pre = json.loads(lines[idx - ev["back"]])["post"]["n"]
    a = ev["a"]
    kinds = tuple(pre[x - 1]["k"] if 0 < x <= len(pre) else "?" for x in a)
    rel = relation(pre, a[0], a[1]) if len(a) == 2 and all(0 < x <= len(pre) for x in a) else ""
    return (ev["op"], ev["res"], kinds, rel)


def mc(module, cfg, workers=12, timeout=900, tag="mc", extra=None, xmx="8g"):
    r = vlib.run_tlc(module, cfg, workers=workers, timeout=timeout, tag=tag, extra=extra, xmx=xmx)
    if not r["ok"]:
        log(r["error"] or r["raw"][-3000:])
        raise ToolError(f"TLC reports an error in the specification itself ({module} / {cfg}); L1 must be repaired")
    log(f"[tlc] {module} {cfg}: {r['generated']} states generated, {r['distinct']} distinct, {r['wall']:.1f}s")
    return r


def write_cfg(name, text):
    p = os.path.join(vlib.SPEC, name)
    with open(p, "w") as f:
        f.write(text)
    return name


FOREST_CFG = """SPECIFICATION Spec
CONSTANTS
  MaxNode = {maxnode}
  Names <- {names}
  Texts <- {texts}
  Pfxs = {{"p"}}
  Uris = {{"u1"}}
  MaxText = {maxtext}
  Dump = {dump}
INVARIANTS {invs}
{props}
CONSTRAINT TextBound
CHECK_DEADLOCK FALSE
"""


def forest_states(tier, seed, tag):
    """TLC as bounded-exhaustive generator: dump every reachable L1 state within small constants, keep one
    representative per isomorphism class."""
    cfgname = write_cfg(f"gen_{tag}_dump.cfg", FOREST_CFG.format(
        maxnode=4, names="Names1", texts="TextsX", maxtext=2, dump="TRUE", invs="Valid DumpState", props=""))
    r = mc("MCForest.tla", cfgname, workers=12, timeout=900, tag=tag + "_dump")
    os.remove(os.path.join(vlib.SPEC, cfgname))
    seen = {}
    for l in r["lines"]:
        if l.startswith("STATE "):
            st = json.loads(l[6:])
            if isinstance(st["n"], dict):  # ToJson of an empty sequence
                st["n"] = []
            st.setdefault("rs", [])
            st.setdefault("bad", "")
            k = canon_state(st)
            if k not in seen:
                seen[k] = st
    states = list(seen.values())
    log(f"[gen] {r['distinct']} reachable L1 states dumped, {len(states)} up to isomorphism")
    return states, r


def forest_check(prop, tier, seed, props_judged=None, drive_profile="std"):
    """C04 / C05 / C06 (and the forest-engine parts of other properties)."""
    props_judged = props_judged or {prop}
    exe = vlib.build_harness()
    d = vlib.workdir(f"forest_{prop}")
    cov = {}
    # 1. L1 model checking: the specification's own invariants
    quick = tier == "quick"
    cfgname = write_cfg(f"gen_{prop}_mc.cfg", FOREST_CFG.format(
        maxnode=3 if quick else 4, names="Names1" if quick else "Names2", texts="TextsXS", maxtext=2, dump="FALSE",
        invs="Valid RefusalsAreStutters Total RiwIdempotent", props="PROPERTY StableIds"))
    r_mc = mc("MCForest.tla", cfgname, workers=12, timeout=3000, tag=prop + "_mc", xmx="16g")
    os.remove(os.path.join(vlib.SPEC, cfgname))
    # 2. spec -> code: every reachable small state x every call instance over every argument tuple
    states, r_dump = forest_states(tier, seed, prop)
    rnd = random.Random(seed)
    rnd.shuffle(states)
    nstates = 400 if quick else 6000
    chosen = states[:nstates]
    sp = os.path.join(d, "states.ndjson")
    with open(sp, "w") as f:
        for st in chosen:
            f.write(json.dumps(st) + "\n")
    rp = os.path.join(d, "replay.ndjson")
    args = ["forest-replay", "--states", sp, "--out", rp, "--seed", str(seed)]
    if not quick:
        args.append("--full")
    vlib.run_harness(exe, args, timeout=1800)
    v1 = vlib.validate_trace(rp, nshards=14, timeout=1800, tag=prop + "_rp")
    log(f"[replay] {len(chosen)} states, {v1['events']} events validated, {len(v1['rejects'])} rejections")
    # 3. code -> spec: seeded random histories, larger than TLC can enumerate
    dp = os.path.join(d, "drive.ndjson")
    episodes = 300 if quick else 6000
    vlib.run_harness(exe, ["forest-drive", "--seed", str(seed), "--episodes", str(episodes), "--len", "40", "--out", dp], timeout=1800)
    v2 = vlib.validate_trace(dp, nshards=14, timeout=2400, tag=prop + "_dr")
    log(f"[drive] {episodes} episodes, {v2['events']} events validated, {len(v2['rejects'])} rejections")
    # 4. collate
    violations, known, notes = [], {}, 0
    classes = set()
    samples = []
    for v in (v1, v2):
        for idx in range(len(v["lines"])):
            c = event_class(v["lines"], idx)
            if c:
                classes.add(c)
        for rj in v["rejects"]:
            if rj["prop"] not in props_judged:
                notes += 1
                continue
            if rj["known"]:
                known.setdefault(rj["known"], 0)
                known[rj["known"]] += 1
                continue
            sc = vlib.scenario_for(v["lines"], rj["line"])
            path = vlib.save_replay(prop, sc, rj)
            if len(violations) < 25:
                violations.append(path)
                log(f"  reject: {rj['op']} a={rj['a']} res={rj['res']} detail={json.dumps(rj['detail'])[:200]}")
    for idx in (1, 2, 3):
        if idx < len(v2["lines"]):
            ev = json.loads(v2["lines"][idx])
            samples.append({k: ev[k] for k in ("op", "a", "res", "ret")})
    kf = {f["id"]: f for f in vlib.load_known()}
    known_lines = [f"{kid} ({cnt} events): {kf.get(kid, {}).get('what', '')}" for kid, cnt in sorted(known.items())]
    cov = {
        "states": r_mc["distinct"] + r_dump["distinct"],
        "transitions": r_mc["generated"] + r_dump["generated"],
        "traces_validated_against_impl": episodes + len(chosen),
        "evaluations": v1["events"] + v2["events"],
        "distinct_nontrivial": len(classes),
        "rule": "events are public calls executed on the real crate and judged by TLC against L1; distinct = distinct (operation, result, kinds of the node arguments, structural relation between the two node arguments) classes observed",
        "samples": samples,
        "exhaustive": False,
        "l1_model": {"maxnode": 3 if quick else 4, "distinct_states": r_mc["distinct"], "invariants": ["Valid", "RefusalsAreStutters", "Total", "RiwIdempotent", "StableIds"]},
        "replayed_states": len(chosen), "reachable_states_up_to_iso": len(states),
        "replay_events": v1["events"], "drive_events": v2["events"], "drive_episodes": episodes,
        "rejections_charged_to_other_properties": notes,
    }
    import shutil
    shutil.rmtree(d, ignore_errors=True)
    return {"violations": violations, "known": known_lines, "coverage": cov,
            "assumptions": ["TLC 1.8 and the Json/IOUtils community modules", "the harness projection (harness/src/proj.rs), re-read and compared on every rebuilt state",
                            "small-scope: exhaustive part limited to forests of <= 4 node ids"]}


CHECKS = {
    "C04": lambda p, t, s: forest_check(p, t, s),
    "C05": lambda p, t, s: forest_check(p, t, s),
    "C06": lambda p, t, s: forest_check(p, t, s),
}


def replay(prop, path):
    exe = vlib.build_harness()
    blob = json.load(open(path))
    d = vlib.workdir("replay")
    sp = os.path.join(d, "scenario.json")
    json.dump(blob["scenario"], open(sp, "w"))
    out = os.path.join(d, "trace.ndjson")
    vlib.run_harness(exe, ["forest-exec", "--scenario", sp, "--out", out])
    v = vlib.validate_trace(out, nshards=1, tag="replay")
    bad = [r for r in v["rejects"] if r["prop"] == prop and not r["known"]]
    for r in v["rejects"]:
        log(f"  reject: prop={r['prop']} {r['op']} a={r['a']} res={r['res']} known={r['known']!r} detail={json.dumps(r['detail'])[:300]}")
    for l in v["lines"][1:]:
        ev = json.loads(l)
        log(f"  observed: {ev['op']} a={ev['a']} -> {ev['res']} ret={ev['ret']}")
    if bad:
        log(f"VIOLATION property={prop} replay={path}")
        return 1
    log(f"replay of {path}: no unlisted violation of {prop}")
    return 0
