------------------------------- MODULE XotHtml -------------------------------
(***************************************************************************)
(* The HTML5 output method as rules over (tree, HTML token sequence): C19. *)
(* toks: what an independent HTML tokenizer (harness/src/html.rs) reads in *)
(* the output: [k, s, raw, px, ln, attrs, sc] with k in "doctype" "stag"   *)
(* "etag" "text" "comment" "pi" "cdata".  lc[i] = ASCII-lowercased local   *)
(* name of node i (TLA+ strings are atomic, so the harness supplies it).   *)
(***************************************************************************)
EXTENDS XotTree

XhtmlNs == "http://www.w3.org/1999/xhtml"
MathNs == "http://www.w3.org/1998/Math/MathML"
SvgNs == "http://www.w3.org/2000/svg"

VoidNames == {"area", "base", "br", "col", "embed", "hr", "img", "input", "link", "meta", "param", "source", "track", "wbr"}
\* void in older HTML versions only: either treatment is accepted, generators avoid them
VoidOptional == {"keygen", "basefont", "frame", "isindex", "command"}

\* xns: the namespace taken to be XHTML (XhtmlNs by the property; see the known finding K-C19)
HtmlNsElemX(N, e, xns) == N[e].k = "elem" /\ N[e].ns \in {"", xns}
IsVoidX(N, lc, e, xns) == HtmlNsElemX(N, e, xns) /\ lc[e] \in VoidNames
IsRawTextX(N, lc, e, xns) == HtmlNsElemX(N, e, xns) /\ lc[e] \in {"script", "style"}
UnprefixedX(N, e, xns) == N[e].ns \in {"", xns, MathNs, SvgNs}

\* the start / end tags an HTML tokenizer must see, in order: <<"s", e>> / <<"e", e>>
RECURSIVE TagSeqB(_, _, _, _, _), TagSeqKids(_, _, _, _, _, _)
TagSeqB(N, lc, i, d, xns) ==
    IF N[i].k = "doc" THEN (IF d = 0 THEN <<>> ELSE TagSeqKids(N, lc, NormKids(N, i), 1, d - 1, xns))
    ELSE IF N[i].k # "elem" THEN <<>>
    ELSE <<<<"s", i>>>>
         \o (IF IsRawTextX(N, lc, i, xns) \/ d = 0 THEN <<>> ELSE TagSeqKids(N, lc, NormKids(N, i), 1, d - 1, xns))
         \o (IF IsVoidX(N, lc, i, xns) THEN <<>> ELSE <<<<"e", i>>>>)
TagSeqKids(N, lc, kids, j, d, xns) == IF j > Len(kids) THEN <<>> ELSE TagSeqB(N, lc, kids[j], d, xns) \o TagSeqKids(N, lc, kids, j + 1, d, xns)
TagSeq(N, lc, top, xns) == TagSeqB(N, lc, top, Len(N), xns)

Tags(toks) == SelectSeq(toks, LAMBDA t : t.k \in {"stag", "etag"})

\* every '&' starts a character or entity reference the serialiser may have written
StartsAt(s, j, pat) == j + Len(pat) - 1 <= Len(s) /\ SubSeq(s, j, j + Len(pat) - 1) = pat
AmpOk(s) ==
    \A j \in 1..Len(s) : s[j] = 38 =>
        \/ StartsAt(s, j, <<38, 97, 109, 112, 59>>)          \* &amp;
        \/ StartsAt(s, j, <<38, 108, 116, 59>>)              \* &lt;
        \/ StartsAt(s, j, <<38, 103, 116, 59>>)              \* &gt;
        \/ StartsAt(s, j, <<38, 110, 98, 115, 112, 59>>)     \* &nbsp;
        \/ StartsAt(s, j, <<38, 113, 117, 111, 116, 59>>)    \* &quot;
        \/ StartsAt(s, j, <<38, 97, 112, 111, 115, 59>>)     \* &apos;
        \/ StartsAt(s, j, <<38, 35>>)                        \* &#...;

Doctype == <<60, 33, 68, 79, 67, 84, 89, 80, 69, 32, 104, 116, 109, 108, 62>>

\* default namespace in effect at each tag token (from the xmlns attributes actually written)
XmlnsOf(t) == LET hits == {a \in 1..Len(t.attrs) : t.attrs[a].px = "" /\ t.attrs[a].ln = "xmlns"} IN
              IF hits = {} THEN "-" ELSE t.attrs[CHOOSE a \in hits : TRUE].vs
RECURSIVE DefaultAt(_, _, _, _, _)
\* result: sequence (per tag token) of the default namespace in effect INSIDE/AT that tag
DefaultAt(tags, exp, j, stack, N) ==
    IF j > Len(tags) THEN <<>>
    ELSE LET t == tags[j]
             cur == IF stack = <<>> THEN "" ELSE stack[Len(stack)]
         IN IF t.k = "stag" THEN
                LET d == IF XmlnsOf(t) = "-" THEN cur ELSE XmlnsOf(t)
                    \* an element without end tag (void) does not open a scope
                    opens == j + 1 <= Len(exp) + 1 /\ ~(\E q \in 1..Len(exp) : q = j /\ exp[q][1] = "s" /\ ~\E r \in (q + 1)..Len(exp) : exp[r] = <<"e", exp[q][2]>>)
                IN <<d>> \o DefaultAt(tags, exp, j + 1, IF opens THEN Append(stack, d) ELSE stack, N)
            ELSE <<cur>> \o DefaultAt(tags, exp, j + 1, IF stack = <<>> THEN stack ELSE SubSeq(stack, 1, Len(stack) - 1), N)

\* the rules; returns the set of broken rule names
HtmlBadX(N, lc, top, toks, xns) ==
    LET exp == TagSeq(N, lc, top, xns)
        tags == Tags(toks)
        chk(name, ok) == IF ok THEN {} ELSE {name}
        aligned == Len(tags) = Len(exp) /\ \A j \in 1..Len(exp) : (exp[j][1] = "s") = (tags[j].k = "stag")
        defs == IF aligned THEN DefaultAt(tags, exp, 1, <<>>, N) ELSE <<>>
    IN chk("starts with the HTML doctype", Len(toks) >= 1 /\ toks[1].k = "doctype" /\ toks[1].s = Doctype)
       \cup chk("tags: one start tag per element, an end tag unless void, none for void elements", aligned)
       \cup (IF ~aligned THEN {} ELSE
             chk("HTML / MathML / SVG element names are written unprefixed",
                 \A j \in 1..Len(exp) : LET e == exp[j][2] IN tags[j].ln = N[e].ln /\ (UnprefixedX(N, e, xns) => tags[j].px = ""))
             \cup chk("HTML elements are never self-closed",
                      \A j \in 1..Len(exp) : (exp[j][1] = "s" /\ HtmlNsElemX(N, exp[j][2], xns)) => ~tags[j].sc)
             \cup chk("MathML and SVG elements are inside a default-namespace declaration for their namespace",
                      \A j \in 1..Len(exp) : (exp[j][1] = "s" /\ N[exp[j][2]].ns \in {MathNs, SvgNs}) => defs[j] = N[exp[j][2]].ns)
             \cup chk("attributes are written one by one in order (a raw quote would break the value)",
                      \A j \in 1..Len(exp) : exp[j][1] = "s" =>
                          LET e == exp[j][2]
                              written == SelectSeq(tags[j].attrs, LAMBDA a : ~(a.px = "xmlns" \/ (a.px = "" /\ a.ln = "xmlns")))
                          IN [q \in 1..Len(written) |-> written[q].ln] = [q \in 1..Len(AttrKids(N, e)) |-> N[AttrKids(N, e)[q]].ln]))
       \cup chk("raw < or & from text outside script / style / CDATA",
                \A j \in 1..Len(toks) : (toks[j].k = "text" /\ ~toks[j].raw) => (AmpOk(toks[j].s) /\ \A q \in 1..Len(toks[j].s) : toks[j].s[q] # 60))
       \cup chk("raw \" or & in an attribute value",
                \A j \in 1..Len(toks) : toks[j].k = "stag" => \A a \in 1..Len(toks[j].attrs) :
                     AmpOk(toks[j].attrs[a].raw) /\ \A q \in 1..Len(toks[j].attrs[a].raw) : toks[j].attrs[a].raw[q] # 34)

HtmlBad(N, lc, top, toks) == HtmlBadX(N, lc, top, toks, XhtmlNs)

\* A CDATA section appears only as the content of an element that was asked to get one (cdata_section_elements holds
\* expanded names: exactly those, not names that differ in letter case or in the choice between no namespace and XHTML).
\* The element a token lies in is found by replaying the tag tokens against the expected tag sequence.
RECURSIVE EnclosingB(_, _, _, _, _, _)
EnclosingB(toks, exp, j, t, stack, q) ==            \* the innermost open element when token q is reached
    IF j >= q THEN (IF stack = <<>> THEN 0 ELSE stack[Len(stack)])
    ELSE IF toks[j].k \notin {"stag", "etag"} \/ t + 1 > Len(exp) THEN EnclosingB(toks, exp, j + 1, t, stack, q)
    ELSE LET x == exp[t + 1] IN
         IF x[1] = "s"
         THEN EnclosingB(toks, exp, j + 1, t + 1,
                         IF \E r \in (t + 2)..Len(exp) : exp[r] = <<"e", x[2]>> THEN Append(stack, x[2]) ELSE stack, q)
         ELSE EnclosingB(toks, exp, j + 1, t + 1, IF stack = <<>> THEN stack ELSE SubSeq(stack, 1, Len(stack) - 1), q)
CdataUnrequested(N, lc, top, toks, xns, req) ==
    LET exp == TagSeq(N, lc, top, xns)
        tags == Tags(toks)
        aligned == Len(tags) = Len(exp) /\ \A j \in 1..Len(exp) : (exp[j][1] = "s") = (tags[j].k = "stag")
    IN IF ~aligned THEN {}
       ELSE {q \in 1..Len(toks) : toks[q].k = "cdata" /\
                LET n == EnclosingB(toks, exp, 1, 0, <<>>, q) IN n = 0 \/ <<N[n].ns, N[n].ln>> \notin req}

PiWithGt(N, top) == \E x \in Subtree(N, top) : N[x].k = "pi" /\ \E q \in 1..Len(N[x].t) : N[x].t[q] = 62
=============================================================================
