----------------------------- MODULE TraceIntern -----------------------------
(***************************************************************************)
(* Trace validation for the interning tables (C08).  The harness logs, for *)
(* every add_* / lookup call, the equivalence class of the returned id     *)
(* (ids are opaque; classes are numbered by first sight) and the strings   *)
(* read back through it.  The trace is a behaviour of L1 (XotIntern) iff   *)
(* there is an injective correspondence between classes and L1 ids: the    *)
(* same key always shows the same class, different keys never share one,   *)
(* a key that was never registered is not found, and every id reads back   *)
(* the key it was registered with - also after Xot::clone and after calls  *)
(* that register unknown further entries (parse, html5: "opaque").         *)
(***************************************************************************)
EXTENDS XotIntern, TLC, Json, IOUtils

Rec == ndJsonDeserialize(IOEnv.TRACE)
OpenKnown == LET ks == JsonDeserialize(IOEnv.KNOWN) IN {ks[j] : j \in 1..Len(ks)}

VARIABLES i, T, bad
\* T[tbl] = [keys |-> seq of [key, cls], bulks |-> seq of [lo, hi, first], opaque |-> BOOLEAN]

Tables == {"name", "ns", "px"}
EmptyT == [tb \in Tables |-> [keys |-> <<>>, bulks |-> <<>>, opaque |-> FALSE]]
XmlNsStr == "http://www.w3.org/XML/1998/namespace"
K(s, ns) == [s |-> s, k |-> 0 - 1, ns |-> ns]

KnownCls(t, key) ==
    LET hk == {j \in 1..Len(t.keys) : t.keys[j].key = key}
        hb == {j \in 1..Len(t.bulks) : key.s = "fam" /\ key.ns = "" /\ key.k >= t.bulks[j].lo /\ key.k < t.bulks[j].hi}
    IN IF hk # {} THEN t.keys[CHOOSE j \in hk : TRUE].cls
       ELSE IF hb # {} THEN LET b == t.bulks[CHOOSE j \in hb : TRUE] IN b.first + (key.k - b.lo)
       ELSE 0 - 1
ClsTaken(t, c) ==
    \/ \E j \in 1..Len(t.keys) : t.keys[j].cls = c
    \/ \E j \in 1..Len(t.bulks) : c >= t.bulks[j].first /\ c < t.bulks[j].first + (t.bulks[j].hi - t.bulks[j].lo)

KeyOfEv(e) == [s |-> e.key.s, k |-> e.key.k, ns |-> IF e.tbl = "name" THEN e.key.ns ELSE ""]

\* verdict of one event against the tables before it ("" = accepted)
Verdict(e, Tb) ==
    IF e.op \in {"clone", "opaque", "reset"} THEN ""
    ELSE IF e.op = "panic" THEN "a registration, lookup or parse panicked"
    ELSE LET t == Tb[e.tbl]  key == KeyOfEv(e)  kc == KnownCls(t, key) IN
    IF e.op = "bulk" THEN
        IF e.newcls # e.hi - e.lo THEN "bulk registration of fresh keys returned ids already in use (two keys share an id)"
        ELSE IF ~e.contig THEN "bulk registration: ids not distinct per key or wrong read-back"
        ELSE IF \E c \in {e.firstcls, e.firstcls + (e.hi - e.lo) - 1} : ClsTaken(t, c) THEN "bulk ids collide with earlier ids"
        ELSE ""
    ELSE IF e.op = "add" THEN
        IF ~e.has THEN "add returned nothing"
        ELSE IF kc >= 0 /\ e.cls # kc THEN "the same key was given a different id"
        ELSE IF kc < 0 /\ ClsTaken(t, e.cls) THEN "two different keys share an id"
        ELSE IF kc < 0 /\ ~t.opaque /\ ~e.fresh THEN "a new key was given an id seen before"
        ELSE IF e.rb.s # key.s \/ e.rb.k # key.k \/ (e.tbl = "name" /\ e.rbns # key.ns) THEN "id reads back a different string"
        ELSE ""
    ELSE \* get
        IF e.must /\ ~e.has THEN "a string registered implicitly by an accepted parse is not found"
        ELSE IF kc >= 0 /\ ~e.has THEN "a registered key is not found"
        ELSE IF kc >= 0 /\ e.cls # kc THEN "lookup returned a different id than registration"
        ELSE IF kc < 0 /\ ~t.opaque /\ e.has THEN "a key that was never registered is found"
        ELSE IF kc < 0 /\ e.has /\ ClsTaken(t, e.cls) THEN "two different keys share an id"
        ELSE IF e.has /\ (e.rb.s # key.s \/ e.rb.k # key.k \/ (e.tbl = "name" /\ e.rbns # key.ns)) THEN "id reads back a different string"
        ELSE ""

Apply(e, Tb) ==
    IF e.op = "reset" THEN
        [EmptyT EXCEPT !["ns"].keys = <<[key |-> K("", ""), cls |-> e.builtins.no_namespace[1]], [key |-> K(XmlNsStr, ""), cls |-> e.builtins.xml_namespace[1]]>>,
                       !["px"].keys = <<[key |-> K("", ""), cls |-> e.builtins.empty_prefix[1]], [key |-> K("xml", ""), cls |-> e.builtins.xml_prefix[1]]>>,
                       !["name"].keys = <<[key |-> K("space", XmlNsStr), cls |-> e.builtins.xml_space[1]], [key |-> K("id", XmlNsStr), cls |-> e.builtins.xml_id[1]]>>]
    ELSE IF e.op = "opaque" THEN [tb \in Tables |-> [Tb[tb] EXCEPT !.opaque = TRUE]]
    ELSE IF e.op \in {"clone", "panic"} THEN Tb
    ELSE IF e.op = "bulk" THEN [Tb EXCEPT ![e.tbl].bulks = Append(@, [lo |-> e.lo, hi |-> e.hi, first |-> e.firstcls])]
    ELSE IF e.has /\ KnownCls(Tb[e.tbl], KeyOfEv(e)) < 0 THEN [Tb EXCEPT ![e.tbl].keys = Append(@, [key |-> KeyOfEv(e), cls |-> e.cls])]
    ELSE Tb

BuiltinsBad(e) ==
    LET b == e.builtins IN
    IF b.no_namespace[1] = b.xml_namespace[1] \/ b.empty_prefix[1] = b.xml_prefix[1] \/ b.xml_space[1] = b.xml_id[1] THEN "built-in ids are not distinct"
    ELSE IF b.no_namespace[2] # "" \/ b.xml_namespace[2] # XmlNsStr \/ b.empty_prefix[2] # "" \/ b.xml_prefix[2] # "xml"
            \/ b.xml_space[2] # "space" \/ b.xml_space[3] # XmlNsStr \/ b.xml_id[2] # "id" \/ b.xml_id[3] # XmlNsStr
         THEN "built-in ids do not resolve to their standard strings"
    ELSE ""

\* the open finding is the 16-bit width and nothing else: of more than 65 000 fresh keys at least 65 000 got an id of their own
\* (a table that wraps earlier - a narrower id type - is a different defect and is reported)
KnownIntern(e, v) ==
    IF e.op = "bulk" /\ e.hi - e.lo > 65000 /\ e.newcls >= 65000 /\ e.newcls <= 65536 THEN "K-C08-id-width-16-bit" ELSE ""

Init == i = 0 /\ T = EmptyT /\ bad = ""
Next == /\ i < Len(Rec) /\ i' = i + 1
        /\ LET e == Rec[i + 1] IN
           /\ bad' = IF e.op = "reset" THEN BuiltinsBad(e) ELSE Verdict(e, T)
           /\ T' = Apply(e, T)
Spec == Init /\ [][Next]_<<i, T, bad>>

Judged == bad = "" \/ PrintT("REJECT " \o ToJson([i |-> i, prop |-> "C08", op |-> Rec[i].op, a |-> <<>>, res |-> Rec[i].tbl, detail |-> <<bad, Rec[i].key>>,
                                                  known |-> IF KnownIntern(Rec[i], bad) \in OpenKnown THEN KnownIntern(Rec[i], bad) ELSE ""]))
Consumed == TLCGet("stats").diameter = Len(Rec) + 1 \/ PrintT(<<"NOTCONSUMED", TLCGet("stats").diameter, Len(Rec)>>)
=============================================================================
