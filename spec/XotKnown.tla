------------------------------ MODULE XotKnown ------------------------------
(***************************************************************************)
(* Named deviations: signatures of the genuine defects of the pinned xot   *)
(* that are recorded in /verif/known_findings.json with status "open".     *)
(* KnownId(prop, e, N, cons, detail) returns the id of the finding whose   *)
(* signature (operation, shape of the arguments relative to the pre-state, *)
(* result) the rejected event matches, or "" - in which case the rejection *)
(* is a VIOLATION.  A signature only takes effect while its id is listed   *)
(* as open (TraceForest!OpenKnown); "fixed" entries suppress nothing.      *)
(***************************************************************************)
EXTENDS XotForest

DeclsAtK(N, i) == IF N[i].k = "elem" THEN {<<N[x].ln, N[x].u>> : x \in SeqRange(NsKids(N, i))} ELSE {}

\* parser engine: e = the event (input + runs), entry = the entry point, detail = the rejection
KnownParse(prop, e, entry, detail) == ""

\* serialiser engine: e = the event (forest, root, parameters, results)
\* K-C10-unprefixed-element-under-default-namespace: an element in no namespace below a default-namespace declaration is
\* written unprefixed (and so lands in the default namespace).  Signature: the written names differ from the tree's
\* names exactly at such elements.
RECURSIVE DefaultNsB(_, _, _)
DefaultNsB(N, x, d) ==
    LET own == {b[2] : b \in {c \in DeclsAtK(N, x) : c[1] = ""}} IN
    IF own # {} THEN CHOOSE u \in own : TRUE ELSE IF d = 0 \/ N[x].p = 0 THEN "" ELSE DefaultNsB(N, N[x].p, d - 1)
NameSeqAsWritten(N, top) ==
    LET es == SelectSeq(PreNorm(N, top), LAMBDA x : N[x].k = "elem") IN
    [j \in 1..Len(es) |-> <<IF N[es[j]].ns = "" THEN DefaultNsB(N, es[j], Len(N)) ELSE N[es[j]].ns, N[es[j]].ln,
                             {<<N[a].ns, N[a].ln>> : a \in SeqRange(AttrKids(N, es[j]))}>>]
NameSeqK(N, top) ==
    LET es == SelectSeq(PreNorm(N, top), LAMBDA x : N[x].k = "elem") IN
    [j \in 1..Len(es) |-> <<N[es[j]].ns, N[es[j]].ln, {<<N[a].ns, N[a].ln>> : a \in SeqRange(AttrKids(N, es[j]))}>>]
DocElemK(N, x) == LET es == SelectSeq(NormKids(N, x), LAMBDA y : N[y].k = "elem") IN IF Len(es) = 0 THEN 0 ELSE es[1]

KnownSer(prop, e, detail) ==
    LET N == e.st.n
        rr == IF N[e.root].k = "doc" THEN e.reroot ELSE DocElemK(e.retree.n, e.reroot)
    IN IF prop = "C10" /\ detail[1] = "a written name resolves to a different expanded name" /\ rr # 0
            /\ NameSeqAsWritten(N, e.root) = NameSeqK(e.retree.n, rr)
       THEN "K-C10-unprefixed-element-under-default-namespace"
       ELSE IF prop = "C14" /\ e.frag /\ e.decl # 0 /\ detail[1] = "output is rejected by the parser"
       THEN "K-C14-declaration-on-fragment"
       ELSE ""

\* forest engine.  K-C10: create_missing_prefixes does not repair an element in no namespace that sits below a
\* default-namespace declaration (the same open finding as in the serialiser); signature: the only names left unusable
\* after the call are such elements / the only names that reparse differently are such elements.
UnprefixedUnderDefault(N, x) == N[x].k = "elem" /\ N[x].ns = "" /\ (\E b \in InScope(N, x) : b[1] = "")
KnownId(prop, e, N, cons, detail) ==
    IF prop = "C10" /\ e.op = "cmp" /\ detail[1] = "relation" /\ Len(detail) >= 7
          /\ detail[3] = TRUE /\ detail[5] = TRUE /\ detail[7] # {}
          /\ \A x \in detail[7] : UnprefixedUnderDefault(e.post.n, x)
    THEN "K-C10-unprefixed-element-under-default-namespace"
    ELSE IF prop = "C10" /\ e.op = "cmp" /\ detail[1] = "after create_missing_prefixes the tree does not serialise / reparse deep-equal"
          /\ e.spost.res = "ok" /\ e.spost.re = "ok"
          /\ LET P == e.post.n
                  rr == IF P[e.spost.root].k = "doc" THEN e.spost.reroot ELSE DocElemK(e.spost.retree.n, e.spost.reroot)
              IN rr # 0 /\ NameSeqAsWritten(P, e.spost.root) = NameSeqK(e.spost.retree.n, rr)
                        /\ NameSeqK(P, e.spost.root) # NameSeqK(e.spost.retree.n, rr)
    THEN "K-C10-unprefixed-element-under-default-namespace"
    \* K-C15: deduplicate_namespaces removes a declaration whose namespace is also bound in the enclosing scope although
    \* that outer prefix is shadowed at (or below) the element - the names that relied on the removed declaration lose
    \* their only usable prefix.  Signature: every name that became unusable has a removed declaration of its namespace
    \* on an ancestor-or-self element whose parent scope binds that namespace.
    ELSE IF prop = "C15" /\ e.op \in {"dedup", "dedup2"}
          /\ detail[1] \in {"relation", "a tree that serialised before deduplicate_namespaces does not any more / reparses differently"}
          /\ LET P == IF e.op = "dedup2" /\ e.res = "ok" THEN e.mid.n ELSE e.post.n
                  x0 == e.a[1]
                  lost == {x \in Named(N, x0) : NameUsable(N, x) /\ ~NameUsable(P, x)}
                  removed == {r \in 1..Len(N) : N[r].k = "nsn" /\ P[r].k = "rm"}
              IN /\ Len(P) = Len(N) /\ P = FreeSet(N, removed)
                 /\ lost # {}
                 /\ \A x \in lost : \E r \in removed :
                        /\ N[r].u = N[x].ns
                        /\ N[r].p \in AncOrSelf(N, x)
                        /\ N[N[r].p].p # 0
                        \* an outer binding of the namespace that this kind of name could use exists, and every such
                        \* binding is shadowed (rebound or undeclared) where the name stands
                        /\ LET outer == {b \in InScope(N, N[N[r].p].p) : b[2] = N[r].u /\ (N[x].k = "attr" => b[1] # "")}
                               here == ScopeB(N, ScopeElem(N, x), Len(N))
                           IN outer # {} /\ \A b \in outer : \E c \in here : c[1] = b[1] /\ c[2] # b[2]
    THEN "K-C15-dedup-under-shadowed-prefix"
    \* K-C15b: an element declares a namespace both as default and under a prefix, an ancestor already declares it as
    \* default, and an attribute below uses the prefix: both declarations are removed (the tracker's "in use by an attribute"
    \* mark sits on the element's own entry, which is popped before the decision), the attribute loses its only prefix.
    ELSE IF prop = "C15" /\ e.op \in {"dedup", "dedup2"}
          /\ detail[1] \in {"relation", "a tree that serialised before deduplicate_namespaces does not any more / reparses differently"}
          /\ LET P == IF e.op = "dedup2" /\ e.res = "ok" THEN e.mid.n ELSE e.post.n
                  x0 == e.a[1]
                  lost == {x \in Named(N, x0) : NameUsable(N, x) /\ ~NameUsable(P, x)}
                  removed == {r \in 1..Len(N) : N[r].k = "nsn" /\ P[r].k = "rm"}
              IN /\ Len(P) = Len(N) /\ P = FreeSet(N, removed)
                 /\ lost # {}
                 /\ \A x \in lost : N[x].k = "attr" /\ \E r \in removed :
                        /\ N[r].u = N[x].ns /\ N[r].ln # ""
                        /\ N[r].p \in AncOrSelf(N, x)
                        /\ <<"", N[r].u>> \in DeclsAtK(N, N[r].p)                  \* the element also declares it as default
                        /\ N[N[r].p].p # 0 /\ <<"", N[r].u>> \in InScope(N, N[N[r].p].p)   \* and so does the enclosing scope
    THEN "K-C15-attribute-prefix-removed-under-default"
    ELSE ""

=============================================================================
