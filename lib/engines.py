"""Per-property check definitions.  Every check = TLC model checking of the specification + conformance of the real
crate to it (spec -> code replays of TLC-generated scenarios, code -> spec validation of recorded traces)."""
import json
import os
import random
import subprocess
import time

import gen
import vlib
from vlib import log, ToolError, WORK

# ------------------------------------------------------------------------------------------------ helpers


def canon_state(st):
    """Identity-free key of an abstract forest state: multiset of root shapes + flags (used to keep one
    representative per isomorphism class of the TLC-dumped states)."""
    n = st["n"]

    def shape(i):
        nd = n[i - 1]
        return (nd["k"], nd["ns"], nd["ln"], tuple(nd["t"]), nd["u"], nd["d"], tuple(shape(c) for c in nd["c"]))

    roots = sorted(shape(i + 1) for i, nd in enumerate(n) if nd["p"] == 0 and nd["k"] != "rm")
    removed = sum(1 for nd in n if nd["k"] == "rm")
    return (tuple(roots), min(removed, 1), st["cons"], st.get("eo", False))


def relation(n, a, b):
    """relation of node b to node a in forest n (for classifying argument tuples)"""
    if a == b:
        return "same"

    def anc(x):
        r = []
        seen = 0
        while x and seen < len(n) + 1:
            r.append(x)
            x = n[x - 1]["p"]
            seen += 1
        return r

    aa, ab = anc(a), anc(b)
    if b in aa:
        return "b-ancestor-of-a"
    if a in ab:
        return "a-ancestor-of-b"
    if n[a - 1]["p"] and n[a - 1]["p"] == n[b - 1]["p"]:
        c = n[n[a - 1]["p"] - 1]["c"]
        if a not in c or b not in c:
            return "inconsistent"      # (a projected forest the crate has corrupted: classification only, the judge reports it)
        d = c.index(b) - c.index(a)
        return "next-sib" if d == 1 else "prev-sib" if d == -1 else "sibling"
    if aa[-1] == ab[-1]:
        return "same-tree"
    return "other-tree"


def event_class(lines, idx):
    ev = json.loads(lines[idx])
    if ev["op"] == "reset":
        return None
    pre = json.loads(lines[idx - ev["back"]])["post"]["n"]
    a = ev["a"]
    kinds = tuple(pre[x - 1]["k"] if 0 < x <= len(pre) else "?" for x in a)
    try:
        rel = relation(pre, a[0], a[1]) if len(a) == 2 and all(0 < x <= len(pre) for x in a) else ""
    except (ValueError, IndexError, KeyError):
        rel = "inconsistent"
    return (ev["op"], ev["res"], kinds, rel)


def mc(module, cfg, workers=12, timeout=900, tag="mc", extra=None, xmx="8g"):
    r = vlib.run_tlc(module, cfg, workers=workers, timeout=timeout, tag=tag, extra=extra, xmx=xmx)
    if not r["ok"]:
        log(r["error"] or r["raw"][-3000:])
        raise ToolError(f"TLC reports an error in the specification itself ({module} / {cfg}); L1 must be repaired")
    log(f"[tlc] {module} {cfg}: {r['generated']} states generated, {r['distinct']} distinct, {r['wall']:.1f}s")
    return r


def write_cfg(name, text):
    p = os.path.join(vlib.SPEC, name)
    with open(p, "w") as f:
        f.write(text)
    return name


FOREST_CFG = """SPECIFICATION Spec
CONSTANTS
  MaxNode = {maxnode}
  Names <- {names}
  Texts <- {texts}
  Pfxs = {{"p"}}
  Uris = {{"u1"}}
  MaxText = {maxtext}
  Dump = {dump}
INVARIANTS {invs}
{props}
CONSTRAINT TextBound
CHECK_DEADLOCK FALSE
"""


def forest_states(tier, seed, tag):
    """TLC as bounded-exhaustive generator: dump every reachable L1 state within small constants, keep one
    representative per isomorphism class."""
    cfgname = write_cfg(f"gen_{tag}_dump.cfg", FOREST_CFG.format(
        maxnode=4, names="Names1", texts="TextsX", maxtext=2, dump="TRUE", invs="Valid DumpState", props=""))
    r = mc("MCForest.tla", cfgname, workers=12, timeout=900, tag=tag + "_dump")
    os.remove(os.path.join(vlib.SPEC, cfgname))
    seen = {}
    for l in r["lines"]:
        if l.startswith("STATE "):
            st = json.loads(l[6:])
            if isinstance(st["n"], dict):  # ToJson of an empty sequence
                st["n"] = []
            st.setdefault("rs", [])
            st.setdefault("bad", "")
            k = canon_state(st)
            if k not in seen:
                seen[k] = st
    states = list(seen.values())
    log(f"[gen] {r['distinct']} reachable L1 states dumped, {len(states)} up to isomorphism")
    return states, r


FOREST_VARIANTS = {
    # prop: (drive profile, log views, replay op filter, extra TLC state generator, replay all ops on the forest dump too)
    "C04": ("", False, None, None, True),
    "C05": ("", False, None, None, True),
    "C06": ("", False, None, None, True),
    "C11": ("maps", True, None, None, True),
    "C12": ("clone", False, ["clone_node", "clone_with_prefixes"], "scope", True),
    "C18": ("ws", False, ["riw", "riw2"], "ws", False),
    "C10": ("ns", False, ["cmp"], "scope", False),
    "C15": ("ns", False, ["dedup", "dedup2"], "scope", False),
}


def continued_on_clone(lines, idx):
    """is the event at line idx part of an episode that continues on a copy made by Xot::clone?"""
    k = idx
    while k >= 0:
        l = lines[k]
        if '"op":"reset"' in l:
            return False
        if '"op":"clone_store"' in l and json.loads(l).get("b"):
            return True
        k -= 1
    return False


def forest_check(prop, tier, seed):
    """The forest engine: C04 / C05 / C06 and, with their own drivers and generators, C10 C11 C12 C15 C18."""
    profile, views, only_ops, extra, full_replay = FOREST_VARIANTS[prop]
    exe = vlib.build_harness()
    d = vlib.workdir(f"forest_{prop}")
    quick = tier == "quick"
    mcs = []
    # 1. L1 model checking: the specification's own invariants
    cfgname = write_cfg(f"gen_{prop}_mc.cfg", FOREST_CFG.format(
        maxnode=3 if quick else 4, names="Names1" if quick else "Names2", texts="TextsXS", maxtext=2, dump="FALSE",
        invs="Valid RefusalsAreStutters Total RiwIdempotent FrameHolds L2MovesRefine L2CloneRefines", props="PROPERTY StableIds"))
    r_mc = mc("MCForest.tla", cfgname, workers=12, timeout=3000 if quick else 10800, tag=prop + "_mc", xmx="16g")
    os.remove(os.path.join(vlib.SPEC, cfgname))
    mcs.append(r_mc)
    rnd = random.Random(seed)
    traces = []
    bf_paths = []
    nreplayed = 0
    # 2. spec -> code: every reachable small state x every call instance over every argument tuple
    if full_replay:
        states, r_dump = forest_states(tier, seed, prop)
        mcs.append(r_dump)
        rnd.shuffle(states)
        if quick and not views:
            # a stratified sample: the classes with two or more text nodes of which one sits inside a tree (where text
            # consolidation has something to do: 768 of the 5 115 classes) are over-represented
            def texty(st):
                tx = [nd for nd in st["n"] if nd["k"] == "text"]
                return len(tx) >= 2 and any(nd["p"] != 0 for nd in tx)
            prio = [st for st in states if texty(st)]
            rest = [st for st in states if not texty(st)]
            chosen = prio[:260] + rest[:300]
        else:
            chosen = states[: (150 if quick else 5200)]
        # the same forests with one text node emptied: an explicitly created empty text node is a node like any other
        extra_states = []
        for st in chosen[: (120 if quick else 2000)]:
            texts = [i for i, nd in enumerate(st["n"]) if nd["k"] == "text" and nd["t"]]
            if texts:
                st2 = json.loads(json.dumps(st))
                st2["n"][rnd.choice(texts)]["t"] = []
                extra_states.append(st2)
        chosen = chosen + extra_states + [gen.sandwich_forest(rnd).state() for _ in range(80 if quick else 800)]
        sp = os.path.join(d, "states.ndjson")
        with open(sp, "w") as f:
            for st in chosen:
                f.write(json.dumps(st) + "\n")
        rp = os.path.join(d, "replay.ndjson")
        args = ["forest-replay", "--states", sp, "--out", rp, "--seed", str(seed)]
        if not quick or views:
            args.append("--full")
        if views:
            args.append("--views")
        vlib.run_harness(exe, args, timeout=3600)
        traces.append(("replay", rp))
        bf_paths.append(rp)
        nreplayed += len(chosen)
    # 2b. property-specific TLC generators, with the property's calls on every node
    if extra:
        if extra == "ws":
            gstates, r_g = dump_states("MCWs.tla", "SPECIFICATION Spec\nCONSTANT Dump = TRUE\nINVARIANTS ValidInput RiwLaws DumpState\nCHECK_DEADLOCK FALSE\n", prop + "_ws")
        else:
            gstates, r_g = dump_states("MCScope.tla", scope_cfg(prop), prop + "_scope")
            # and the three-level layouts (default and prefixed declarations of one namespace down a path)
            g3, r_g3 = dump_states("MCScope3.tla", SCOPE3_CFG.format(l2=L2NS.get(prop, "")), prop + "_scope3")
            mcs.append(r_g3)
            rnd.shuffle(g3)
            # and the four-level chains over two namespaces under two prefixes (a declaration redundant only through a
            # binding further up under another prefix, the same prefix rebound in between)
            g4, r_g4 = dump_states("MCScope4.tla", SCOPE3_CFG.format(l2=L2NS.get(prop, "")), prop + "_scope4")
            mcs.append(r_g4)
            rnd.shuffle(g4)
            rnd.shuffle(gstates)
            gstates = gstates[: (600 if quick else 32000)] + g3[: (700 if quick else 11000)] + g4[: (600 if quick else 5000)]
        mcs.append(r_g)
        rnd.shuffle(gstates)
        gchosen = gstates[: (1900 if quick else 50000)]
        if extra == "ws":
            # every second layout: the elements that carry xml:space also declare a prefix (namespace nodes are stored in
            # front of attribute nodes, so whoever looks for the attribute has to get past them)
            for st in gchosen[::2]:
                ns = st["n"]
                for i in range(len(ns)):
                    nd = ns[i]
                    if nd["k"] == "elem" and any(ns[c - 1]["k"] == "attr" and ns[c - 1]["ln"] == "space" and ns[c - 1]["ns"] == gen.XMLNS for c in nd["c"]):
                        for px in (["p", "q"] if rnd.random() < 0.3 else ["p"]):
                            ns.append(gen.node("nsn", p=i + 1, ln=px, u="u1"))
                            nd["c"].insert(0, len(ns))
        if extra != "ws":
            # deeper and wider declaration layouts than the enumerated ones: random namespace-rich chains and bushes
            # (two namespaces, three prefixes, declarations shadowed several levels down), the calls on every node
            for k in range(150 if quick else 3000):
                f, roots = gen.random_forest(rnd, rnd.choice([5, 8, 12, 16]), shape=rnd.choice(["chain", "mixed", "chain"]), nsrich=True, trees=1)
                gchosen.append(f.state())
        if extra != "ws":
            # the same expanded name twice: once where a prefix for it is in scope, once where none is (whoever remembers
            # "this name has been dealt with" must remember WHERE) - as element names and as attribute names, in both orders
            for ns_decl_first in (True, False):
                for as_attr in (False, True):
                    for pxname in ("p", ""):
                        if as_attr and pxname == "":
                            continue
                        ff = gen.Forest(True)
                        r = ff.add(gen.node("elem", ln="r"))
                        def housed():
                            x = ff.add(gen.node("elem", ln="x"), r)
                            ff.add(gen.node("nsn", ln=pxname, u="u1"), x)
                            if as_attr:
                                e = ff.add(gen.node("elem", ln="e"), x)
                                ff.add(gen.node("attr", ns="u1", ln="a", t=gen.cps("v")), e)
                            else:
                                ff.add(gen.node("elem", ns="u1", ln="a"), x)
                        def bare():
                            if as_attr:
                                e = ff.add(gen.node("elem", ln="e"), r)
                                ff.add(gen.node("attr", ns="u1", ln="a", t=gen.cps("v")), e)
                            else:
                                ff.add(gen.node("elem", ns="u1", ln="a"), r)
                        (housed(), bare()) if ns_decl_first else (bare(), housed())
                        gchosen.append(ff.state())
        if extra != "ws":
            # a prefix spelled like a GENERATED one (n0, n1) already declared, for another namespace, 1 to 3 levels below the
            # node that is repaired, and a name in an undeclared namespace underneath it (as element and as attribute): the
            # prefix create_missing_prefixes invents on top must not be one that is shadowed on the way down
            for gp in ("n0", "n1"):
                for depth in (1, 2, 3):
                    for as_attr in (False, True):
                        ff = gen.Forest(True)
                        cur = ff.add(gen.node("elem", ln="r"))
                        if gp == "n1":
                            ff.add(gen.node("elem", ns="u3", ln="z"), cur)      # a first missing namespace takes n0
                        for lv in range(depth - 1):
                            cur = ff.add(gen.node("elem", ln="abc"[lv % 3]), cur)
                        x = ff.add(gen.node("elem", ln="x"), cur)
                        ff.add(gen.node("nsn", ln=gp, u="u2"), x)
                        if as_attr:
                            e = ff.add(gen.node("elem", ln="e"), x)
                            ff.add(gen.node("attr", ns="u1", ln="a", t=gen.cps("v")), e)
                        else:
                            ff.add(gen.node("elem", ns="u1", ln="a"), x)
                        gchosen.append(ff.state())
        sp2 = os.path.join(d, "gstates.ndjson")
        with open(sp2, "w") as f:
            for st in gchosen:
                f.write(json.dumps(st) + "\n")
        rp2 = os.path.join(d, "greplay.ndjson")
        vlib.run_harness(exe, ["forest-replay", "--states", sp2, "--out", rp2, "--seed", str(seed), "--ops", ",".join(only_ops)], timeout=3600)
        traces.append(("generated", rp2))
        bf_paths.append(rp2)
        nreplayed += len(gchosen)
    # 3. code -> spec: seeded random histories, larger than TLC can enumerate
    dp = os.path.join(d, "drive.ndjson")
    episodes = (200 if views else 300) if quick else 6000
    dargs = ["forest-drive", "--seed", str(seed), "--episodes", str(episodes), "--len", "40", "--out", dp]
    if profile:
        dargs += ["--profile", profile]
    if views:
        dargs += ["--views", "--maxnodes", "14"]
    vlib.run_harness(exe, dargs, timeout=3600)
    traces.append(("drive", dp))
    if prop == "C04":
        # histories around the xml:id index of parsed documents: elements with an ID removed, their arena slots reused by new
        # nodes, those attached under the same document (xml_id_node must never hand out the removed node)
        dp2 = os.path.join(d, "drive_xmlid.ndjson")
        vlib.run_harness(exe, ["forest-drive", "--seed", str(seed + 7), "--episodes", str(120 if quick else 3000), "--len", "40", "--out", dp2, "--profile", "xmlid"], timeout=3600)
        traces.append(("drive-xmlid", dp2))
    # 4. validate and collate
    violations, known, notes = [], {}, 0
    for bp in bf_paths:
        notes += vlib.buildfail(bp, prop, violations, known, prop)
    classes = set()
    samples = []
    events = {}
    for name, path in traces:
        v = vlib.validate_trace(path, nshards=14, timeout=2400 if quick else 20000, tag=f"{prop}_{name}")
        events[name] = v["events"]
        log(f"[{name}] {v['events']} events validated, {len(v['rejects'])} rejections")
        for idx in range(0, len(v["lines"]), max(1, len(v["lines"]) // 20000)):
            c = event_class(v["lines"], idx)
            if c:
                classes.add(c)
        for rj in v["rejects"]:
            if rj["prop"] != prop and prop == "C12" and not rj["known"] and continued_on_clone(v["lines"], rj["line"]):
                # the copy made by Xot::clone is a store like its source: a call that deviates from L1 only there is C12's
                rj = dict(rj, prop="C12", detail=["after Xot::clone the copy behaves differently (deviation from L1 under %s)" % rj["prop"], rj["detail"]])
            if rj["prop"] != prop:
                notes += 1
                continue
            if rj["known"]:
                known.setdefault(rj["known"], 0)
                known[rj["known"]] += 1
                continue
            sc = vlib.scenario_for(v["lines"], rj["line"])
            if len(violations) < 25:
                violations.append(vlib.save_replay(prop, sc, rj))
                log(f"  reject: {rj['op']} a={rj['a']} res={rj['res']} detail={json.dumps(rj['detail'])[:240]}")
        if name == "drive":
            for idx in (1, 2, 3):
                if idx < len(v["lines"]):
                    ev = json.loads(v["lines"][idx])
                    samples.append({k: ev[k] for k in ("op", "a", "res", "ret")})
    if prop == "C04":
        # slot churn: handles across tens of thousands of allocate / remove cycles of one arena slot (see spec/MCArena.tla)
        cfgname = write_cfg("gen_C04_arena.cfg", "SPECIFICATION Spec\nCONSTANTS\n  MaxStamp = %d\n  MaxSlots = 2\n  MaxAllocs = %d\n  Saturate = \"retire\"\nINVARIANTS HandlesStayDead LiveHandlesLive NoAliasing\nCHECK_DEADLOCK FALSE\n" % ((2, 9) if quick else (3, 13)))
        mcs.append(mc("MCArena.tla", cfgname, workers=4, timeout=900, tag="C04_arena"))
        os.remove(os.path.join(vlib.SPEC, cfgname))
        cp = os.path.join(d, "churn.ndjson")
        ncyc = 33000 if quick else 70000
        vlib.run_harness(exe, ["churn", "--cycles", str(ncyc), "--out", cp], timeout=1800)
        vc = vlib.validate_trace_flat(cp, module="TraceArena.tla", cfg="TraceArena.cfg", nshards=1, timeout=600, tag="C04_churn")
        events["churn"] = vc["events"]
        log(f"[churn] {vc['events']} episodes validated, {len(vc['rejects'])} rejections")
        for rj in vc["rejects"]:
            if rj["known"]:
                known.setdefault(rj["known"], 0)
                known[rj["known"]] += 1
                continue
            if len(violations) < 25:
                violations.append(vlib.save_replay(prop, {"kind": "churn", "cycles": ncyc}, rj))
                log(f"  reject: churn detail={json.dumps(rj['detail'])[:240]}")
    kf = {f["id"]: f for f in vlib.load_known()}
    known_lines = [f"{kid} ({cnt} events): {kf.get(kid, {}).get('what', '')}" for kid, cnt in sorted(known.items())]
    cov = {
        "states": sum(r["distinct"] for r in mcs), "transitions": sum(r["generated"] for r in mcs),
        "traces_validated_against_impl": episodes + nreplayed,
        "evaluations": sum(events.values()),
        "distinct_nontrivial": len(classes),
        "rule": "events are public calls executed on the real crate and judged by TLC against L1; distinct = distinct (operation, result, kinds of the node arguments, structural relation between the two node arguments) classes observed",
        "samples": samples, "exhaustive": False,
        "l1_model": {"maxnode": 3 if quick else 4, "distinct_states": r_mc["distinct"], "invariants": ["Valid", "RefusalsAreStutters", "Total", "RiwIdempotent", "FrameHolds", "L2MovesRefine", "L2CloneRefines", "StableIds"]},
        "replayed_states": nreplayed, "events": events, "drive_episodes": episodes, "drive_profile": profile or "mixed",
        "rejections_charged_to_other_properties": notes,
    }
    import shutil
    shutil.rmtree(d, ignore_errors=True)
    return {"violations": violations, "known": known_lines, "coverage": cov,
            "assumptions": ["TLC 1.8 and the Json/IOUtils community modules", "the harness projection (harness/src/proj.rs), re-read and compared on every rebuilt state",
                            "small-scope: exhaustive part limited to forests of <= 4 node ids and the property's TLC generator"]}


def dump_states(module, cfgtext, tag, workers=8):
    cfgname = write_cfg(f"gen_{tag}.cfg", cfgtext)
    r = mc(module, cfgname, workers=workers, timeout=1800, tag=tag)
    os.remove(os.path.join(vlib.SPEC, cfgname))
    out = []
    for l in r["lines"]:
        if l.startswith("STATE "):
            st = json.loads(l[6:])
            if isinstance(st["n"], dict):
                st["n"] = []
            st.setdefault("rs", [])
            st.setdefault("bad", "")
            out.append(st)
    return out, r


SCOPE_CFG = """SPECIFICATION Spec
CONSTANT Dump = {dump}
INVARIANTS ValidLayout ScopeDefsAgree ResolutionIsFunction UsableIffSpellable DumpState {l2}
CHECK_DEADLOCK FALSE
"""
SCOPE3_CFG = "SPECIFICATION Spec\nCONSTANT Dump = TRUE\nINVARIANTS ValidLayout ResolutionIsFunction DumpState {l2}\nCHECK_DEADLOCK FALSE\n"
# L2 transcriptions of the crate's namespace machinery (XotNsL2) compared with L1 on every layout, by property
L2NS = {"C09": "L2Scope L2Unres", "C10": "L2Ser L2CmpInv RT", "C15": "L2DedupInv", "C12": "L2Scope L2Unres", "C01": "L2Ser RT", "C14": "L2Ser RT"}


def scope_cfg(prop):
    return SCOPE_CFG.format(dump="TRUE", l2=L2NS.get(prop, ""))

TREE_CFG = """SPECIFICATION Spec
CONSTANTS
  MaxNode = {maxnode}
  Names <- Names1
  Texts <- TextsX
  Pfxs = {{"p"}}
  Uris = {{"u1"}}
  MaxText = 2
  Dump = FALSE
INVARIANTS Valid LawsHold FollowingPrecedingConverse TraverseConsistent AllVariantsExtendPlain LevelOrderIsPermutation StringValueCompositional EqualityLaws EventLaws L2AxesRefine {l2eq}
CONSTRAINT TextBound
CHECK_DEADLOCK FALSE
"""

PFX = ["", "p", "q", "xml", "zz"]
URIS = ["", "u1", "u2", "u3", "http://www.w3.org/XML/1998/namespace"]
IGN = [[], [["", "a"]], [["", "a"], ["", "a"]], [["u1", "b"], ["", "a"]], [["", "c"], ["", "b"], ["", "c"], ["u2", "a"]]]


def live_ids(st):
    return [i + 1 for i, x in enumerate(st["n"]) if x["k"] != "rm"]


STRUCT_OPS = ["append", "prepend", "insert_before", "insert_after", "any_append", "append_attribute_node", "append_namespace_node", "replace", "detach", "remove",
              "element_unwrap", "element_wrap", "clone_node", "riw", "append_text", "text_content_set", "text_set", "set_attribute", "remove_attribute", "set_namespace",
              "remove_namespace"]


def observer_check(prop, tier, seed):
    """C07 / C09 / C13: read-only APIs compared, node by node, with the operators of XotTree."""
    import gen
    quick = tier == "quick"
    exe = vlib.build_harness()
    d = vlib.workdir(f"obs_{prop}")
    rnd = random.Random(seed)
    # 1. TLC on the specification: laws of the operators on all small forests
    cfgname = write_cfg(f"gen_{prop}_tree.cfg", TREE_CFG.format(maxnode=3 if quick else 4, l2eq="L2EqRefines" if (prop == "C13" or not quick) else ""))
    r_mc = mc("MCTree.tla", cfgname, workers=12, timeout=3000, tag=prop + "_tree")
    os.remove(os.path.join(vlib.SPEC, cfgname))
    mcs = [r_mc]
    jobs = []
    what = {"C07": ["axes"], "C09": ["scope"], "C13": ["eq", "axes"]}[prop]
    nsmall = nscope = nrand = 0
    # 2. spec -> code: TLC-enumerated small forests
    if prop in ("C07", "C13"):
        states, r_dump = forest_states(tier, seed, prop)
        mcs.append(r_dump)
        rnd.shuffle(states)
        for st in states[: (500 if quick else 5200)]:
            L = live_ids(st)
            pairs = [[a, b] for a in L for b in L] if prop == "C13" else []
            jobs.append({"st": st, "what": what, "pfx": PFX, "uris": URIS, "pairs": pairs, "ign": IGN})
            nsmall += 1
            if prop == "C07":
                # the same forest after one or two manipulation calls (every kind of call equally often): the read-only APIs
                # must describe the tree the crate has made of it
                for _ in range(3):
                    jobs.append({"st": st, "what": what, "pfx": PFX, "uris": URIS, "pairs": [], "ign": IGN, "steps": rnd.choice([1, 1, 2]), "uniform": True, "names": STRUCT_OPS, "seed": rnd.randrange(1 << 30)})
                    nsmall += 1
    if prop == "C07":
        # every ordered tree shape with up to 7 nodes (depth the 4-id forests cannot have), laws + iterator transcriptions
        shapes, r_sh = dump_states("MCShape.tla", "SPECIFICATION Spec\nCONSTANTS\n  MaxN = %d\n  Dump = TRUE\nINVARIANTS ValidShape L2AxesRefine LawsHold FollowingPrecedingConverse TraverseConsistent LevelOrderIsPermutation DocOrderTotal DumpState\nCHECK_DEADLOCK FALSE\n" % (7 if quick else 8), prop + "_shape")
        mcs.append(r_sh)
        rnd.shuffle(shapes)
        for st in shapes[: (300 if quick else 5000)]:
            jobs.append({"st": st, "what": what, "pfx": PFX, "uris": URIS, "pairs": [], "ign": []})
            nsmall += 1
    if prop == "C09":
        layouts, r_sc = dump_states("MCScope.tla", scope_cfg(prop), prop + "_scope")
        mcs.append(r_sc)
        rnd.shuffle(layouts)
        l3, r_3 = dump_states("MCScope3.tla", SCOPE3_CFG.format(l2=L2NS.get(prop, "")), prop + "_scope3")
        l4, r_4 = dump_states("MCScope4.tla", SCOPE3_CFG.format(l2=L2NS.get(prop, "")), prop + "_scope4")
        mcs += [r_3, r_4]
        rnd.shuffle(l3)
        rnd.shuffle(l4)
        for st in layouts[: (1100 if quick else 32000)] + l3[: (400 if quick else 11000)] + l4[: (400 if quick else 5000)]:
            jobs.append({"st": st, "what": what, "pfx": PFX, "uris": URIS, "pairs": [], "ign": []})
            nscope += 1
    # 3. code -> spec: random forests larger than TLC enumerates
    nrandom = (120 if quick else 2500)
    for k in range(nrandom):
        shape = ["mixed", "chain", "fan", "mixed"][k % 4]
        size = rnd.choice([6, 10, 16, 24] if quick else [8, 16, 24, 40, 60])
        f, roots = gen.random_forest(rnd, size, shape=shape, nsrich=(prop == "C09" or k % 3 == 0), trees=rnd.choice([1, 1, 2]), cons=rnd.random() < 0.85)
        pairs = []
        if prop == "C13":
            # near-duplicates: copy a subtree and change exactly one feature (or none)
            elems = [i + 1 for i, x in enumerate(f.n) if x["k"] in ("elem", "doc")]
            src = rnd.choice(elems)
            if k % 5 == 2:
                # make sure there is a processing instruction with data, as a child of src and as a pair of its own
                f.add(gen.node("pi", ln="a", t=gen.cps("Data x"), d=True), src)
            wide = k % 5 == 3 and f.n[src - 1]["k"] == "elem"
            if wide:
                # an element with 9 to 12 attributes against a copy that has one more (or one renamed): code that switches
                # its strategy with the number of entries must still count them
                have = {(f.n[c - 1]["ns"], f.n[c - 1]["ln"]) for c in f.n[src - 1]["c"] if f.n[c - 1]["k"] == "attr"}
                pool = [(u, l) for u in gen.NSS for l in "defghijk" if (u, l) not in have]
                for key in rnd.sample(pool, max(0, rnd.randint(9, 12) - len(have))):
                    f.add(gen.node("attr", ns=key[0], ln=key[1], t=gen.cps(rnd.choice(["", "v", "w"]))), src)
            cp, mp = gen.copy_subtree(f, src)
            if wide:
                if rnd.random() < 0.7:
                    f.add(gen.node("attr", ns="", ln="extra", t=gen.cps("v")), cp)
                else:
                    a = rnd.choice([c for c in f.n[cp - 1]["c"] if f.n[c - 1]["k"] == "attr"])
                    f.n[a - 1]["ln"] = "renamed"
            elif k % 5 == 2:
                pis = [b for a, b in mp.items() if f.n[b - 1]["k"] == "pi" and f.n[b - 1]["d"]]
                tgt = f.n[pis[-1] - 1]
                tgt["t"] = [c - 32 if 97 <= c <= 122 else c for c in tgt["t"]] if k % 2 == 0 else tgt["t"] + [32]
            else:
                gen.mutate(f, cp, rnd)
            cp2, mp2 = gen.copy_subtree(f, cp)
            if rnd.random() < 0.5:
                gen.mutate(f, cp2, rnd)
            for a, b in [(a, b) for a, b in mp.items() if f.n[a - 1]["k"] == "pi"][:3]:
                pairs += [[a, b], [b, a]]
            for a, b in list(mp.items())[:12]:
                b2 = mp2.get(b)
                pairs += [[a, b], [b, a], [a, a]] + ([[b, b2], [a, b2], [b2, a]] if b2 else [])
            L = [i + 1 for i in range(len(f.n))]
            for _ in range(20):
                pairs.append([rnd.choice(L), rnd.choice(L)])
        jobs.append({"st": f.state(), "what": what, "pfx": PFX, "uris": URIS, "pairs": pairs, "ign": IGN})
        nrand += 1
        if prop == "C07":
            # the same forest after a few manipulation calls: trees the crate has produced itself (a random history, and
            # twice one or two calls that change the structure, every kind of call equally often)
            if k % 2 == 0:
                jobs.append({"st": f.state(), "what": what, "pfx": PFX, "uris": URIS, "pairs": [], "ign": IGN, "steps": rnd.choice([1, 2, 4, 8]), "seed": rnd.randrange(1 << 30)})
                nrand += 1
            for _ in range(2):
                jobs.append({"st": f.state(), "what": what, "pfx": PFX, "uris": URIS, "pairs": [], "ign": IGN, "steps": rnd.choice([1, 1, 2]), "uniform": True, "names": STRUCT_OPS, "seed": rnd.randrange(1 << 30)})
                nrand += 1
    if prop == "C07":
        # small declaration- and attribute-rich forests, one structure-changing call each
        for k in range(300 if quick else 6000):
            f, roots = gen.random_forest(rnd, rnd.choice([5, 7, 9]), shape=rnd.choice(["mixed", "fan"]), nsrich=True, trees=rnd.choice([1, 2]))
            jobs.append({"st": f.state(), "what": what, "pfx": PFX, "uris": URIS, "pairs": [], "ign": IGN, "steps": 1, "uniform": True, "names": STRUCT_OPS, "seed": rnd.randrange(1 << 30)})
            nrand += 1
    rnd.shuffle(jobs)   # balance the shards
    jp = os.path.join(d, "jobs.ndjson")
    with open(jp, "w") as fh:
        for j in jobs:
            fh.write(json.dumps(j) + "\n")
    op = os.path.join(d, "obs.ndjson")
    try:
        vlib.run_harness(exe, ["observe", "--jobs", jp, "--out", op], timeout=600 if quick else 3000)
    except subprocess.TimeoutExpired:
        # a read-only call that does not return is a violation of the property, observed by the watchdog
        path = vlib.save_replay(prop, {"jobs_file_head": jobs[:1]}, {"hang": "observe did not finish within the watchdog limit"})
        return {"violations": [path], "known": [], "coverage": {"evaluations": len(jobs), "distinct_nontrivial": 2, "samples": [], "explanation": "hang"}, "assumptions": []}
    v = validate_observe(op, prop, quick)
    violations, known = [], {}
    other = vlib.buildfail(op, prop, violations, known, prop)
    for rj in v["rejects"]:
        if rj["prop"] == "TOOL":
            raise ToolError(f"generated state rejected as input: {rj['detail']}")
        if rj["prop"] == "STRUCT":
            rj = dict(rj, prop=prop)
        if rj["prop"] == "XAPI":
            # value / type accessors outside the listed properties: noted, never a violation of this property
            if other < 3:
                log(f"  NOTE (outside the listed properties): accessor differs from the specification: {json.dumps(rj['detail'])[:200]}")
            other += 1
            continue
        if rj["prop"] != prop:
            other += 1
            continue
        for kid in rj.get("knowns", []):
            known.setdefault(kid, 0)
            known[kid] += 1
        if rj["known"]:      # every differing (node, API) pair matches an open known finding
            continue
        job = json.loads(v["lines"][rj["line"]])
        if len(violations) < 25:
            path = vlib.save_replay(prop, {"kind": "observe", "job": {k: job[k] for k in ("what", "pfx", "uris", "pairs", "ign")} | {"st": job["post"]}}, rj)
            violations.append(path)
            log(f"  reject: {json.dumps(rj['detail'])[:300]}")
    kf = {f["id"]: f for f in vlib.load_known()}
    known_lines = [f"{kid} ({cnt} events): {kf.get(kid, {}).get('what', '')}" for kid, cnt in sorted(known.items())]
    nodes = sum(len(live_ids(j["st"])) for j in jobs)
    shapes = set()
    for j in jobs:
        shapes.add(canon_state(j["st"]))
    sample = jobs[-1]["st"]["n"][:6]
    cov = {
        "states": sum(r["distinct"] for r in mcs), "transitions": sum(r["generated"] for r in mcs),
        "traces_validated_against_impl": len(jobs),
        "evaluations": nodes if prop != "C13" else sum(len(j["pairs"]) for j in jobs),
        "distinct_nontrivial": len(shapes),
        "rule": "one event per forest built in the real crate; every node (C07, C09) / listed node pair (C13) x every API is compared by TLC with the XotTree operator; distinct = forests distinct up to renaming of ids",
        "samples": [{"first_nodes_of_last_random_forest": sample}],
        "exhaustive": False,
        "tlc_enumerated_forests": nsmall, "tlc_enumerated_layouts": nscope, "random_forests": nrand,
        "rejections_charged_to_other_properties": other,
    }
    import shutil
    shutil.rmtree(d, ignore_errors=True)
    return {"violations": violations, "known": known_lines, "coverage": cov,
            "assumptions": ["TLC 1.8 and the Json/IOUtils community modules", "the harness projection and state builder (re-read and compared on every rebuilt state)",
                            "exhaustive part is small-scope (forests <= 4 ids; two-level declaration layouts over 3 prefixes x 2 namespaces)"]}


def validate_observe(path, prop, quick):
    return vlib.validate_trace_flat(path, module="TraceTree.tla", cfg="TraceTree.cfg", nshards=14, timeout=1200 if quick else 6000, tag=prop + "_obs")


def known_observer(prop, rj, job):
    """Known-finding signatures for the observer engine (none open at present)."""
    return ""


LEX_CFG = """SPECIFICATION Spec
CONSTANTS
  MaxLen = {maxlen}
  Alphabet = {{120, 60, 38, 62, 93, 34, 39, 9, 10, 13, 233, 128512}}
INVARIANTS TextOk TextUgtOk AttrOk CDataOk SpellValSane
CHECK_DEADLOCK FALSE
"""


def small_docs(X):
    """tiny abstract documents for the exhaustive spelling enumerations"""
    docs = []
    for v in ([], [120], [60], [38], [62], [34], [39], [9], [10], [13], [32], [233], [0x1F600], [93, 93, 62], [10, 10], [13, 10], [120, 10], [32, 32]):
        docs.append({"before": [], "after": [], "root": {"ns": "", "ln": "a", "decls": [], "attrs": [("", "b", v)] if v else [], "kids": [("text", v)] if v else []}})
    docs.append({"before": [("comm", [120])], "after": [("pi", "pa", [100])], "root": {"ns": "u1", "ln": "a", "decls": [("", "u1"), ("p", "u1"), ("q", "u2")],
                 "attrs": [("u1", "b", [118]), ("u2", "c", [119]), (X.XMLNS, "id", X.cps("i1"))],
                 "kids": [{"ns": "", "ln": "b", "decls": [("", "")], "attrs": [], "kids": [("text", [120, 10, 121])]},
                          {"ns": "u2", "ln": "c", "decls": [("p", "u2")], "attrs": [("u2", "a", [49])], "kids": []}]}})
    # mixed content: character data on both sides of a comment / PI / element / CDATA-only run inside one element
    T = lambda s: ("text", X.cps(s))
    for kids in ([T("x"), ("comm", [99]), T("y")], [T("x"), ("pi", "pa", [100]), T("y")], [T("x"), ("comm", []), ("pi", "pb", None), T("y z")],
                 [("comm", [99]), T("x"), ("comm", [100])], [T("a\nb"), {"ns": "", "ln": "b", "decls": [], "attrs": [], "kids": []}, T("c"), ("comm", [45, 120]), T("d")]):
        docs.append({"before": [], "after": [], "root": {"ns": "", "ln": "a", "decls": [], "attrs": [], "kids": kids}})
    return docs


def retuple(doc):
    """JSON round trip turns the tuples of an abstract document into lists; restore the shapes xmlgen expects"""
    def el(e):
        e["decls"] = [tuple(d) for d in e["decls"]]
        e["attrs"] = [(a[0], a[1], list(a[2])) for a in e["attrs"]]
        e["kids"] = [el(k) if isinstance(k, dict) else tuple(k) for k in e["kids"]]
        return e
    doc["before"] = [tuple(k) for k in doc["before"]]
    doc["after"] = [tuple(k) for k in doc["after"]]
    doc["root"] = el(doc["root"])
    return doc


def parser_jobs(prop, tier, seed):
    import xmlgen as X
    quick = tier == "quick"
    rnd = random.Random(seed)
    jobs = []
    counts = {"enumerated": 0, "random": 0, "damaged": 0, "fuzz": 0}
    encs_all = ["utf8", "utf8bom", "utf16le", "utf16be"]

    def add(mode, toks, expect, dmg="", ids=(), encs=()):
        jobs.append({"mode": mode, "text": X.text_of(toks), "toks": toks, "hastoks": True, "expectwf": expect, "dmg": dmg,
                     "encs": list(encs), "idq": [list(i) for i in ids] + [X.cps("nope")],
                     # the manipulation API's consolidation switch is none of the parser's business
                     "consoff": len(jobs) % 5 == 3})

    # spec -> code: enumerate every spelling of tiny documents, one family of choices at a time
    families = [{"char", "cdata", "split", "splitat", "cdataeol"}, {"quote", "ws", "eq", "endws", "empty"}, {"xmldecl", "topws", "interleave", "interleave2", "prefix", "idpad", "bom"}]
    per_doc = 60 if quick else 2000
    for doc in small_docs(X):
        for fam in families:
            od = X.Odometer(limit=per_doc, free=fam)
            while True:
                od.start()
                toks = X.render_doc(doc, od, "doc")
                add("doc", toks, "yes", ids=X.doc_ids(doc), encs=["utf8"] if counts["enumerated"] % 7 else encs_all)
                counts["enumerated"] += 1
                if not od.advance():
                    break
    # bindings made (or shadowed) on an inner element must be gone again behind it: 75 documents x random spellings
    for doc in X.scope_exit_docs():
        for rep in range(2 if quick else 12):
            ch = X.RandomChooser(rnd)
            if rep % 2 == 0:
                add("doc", X.render_doc(doc, ch, "doc"), "yes", ids=X.doc_ids(doc), encs=[])
            else:
                add("frag", X.render_doc({"kids": [("text", [120]), doc["root"], ("comm", [120])]}, ch, "frag"), "yes", ids=X.doc_ids(doc), encs=[])
            counts["enumerated"] += 1
    # fragments with several top-level elements: the first one's declarations must not reach the later ones
    for fr in X.scope_exit_frags():
        for rep in range(1 if quick else 6):
            add("frag", X.render_doc(fr, X.RandomChooser(rnd), "frag"), "yes", ids=[], encs=[])
            counts["enumerated"] += 1
    # fragments whose top-level character data is white space only, or starts / ends with it (content like any other)
    E0 = lambda ln, kids=(): {"ns": "", "ln": ln, "decls": [], "attrs": [], "kids": list(kids)}
    for kids in ([("text", [32]), E0("a")], [E0("a"), ("text", [10])], [("text", [9]), E0("a"), ("text", [32, 10]), E0("b"), ("text", [32])],
                 [("comm", [120]), ("text", [32]), E0("a")], [("text", [10, 32, 32]), ("pi", "pa", None), ("text", [10])], [("text", [32, 120]), E0("a", [("text", [32])]), ("text", [120, 32])],
                 [("text", [32])], [("text", [13])]):
        for rep in range(2 if quick else 10):
            add("frag", X.render_doc({"kids": list(kids)}, X.RandomChooser(rnd) if rep else X.CanonChooser(rnd, set()), "frag"), "yes", ids=[], encs=[])
            counts["enumerated"] += 1
    # one value, one special piece: the value "u v" with its space written as SP / TAB / LF / CR / CR LF and everything else
    # literal (or exactly one character reference next to it) - as an attribute, a prefixed declaration, a default
    # declaration and an xml:id.  What a "nothing to decode in this value" shortcut gets to see, each case exactly once.
    canon = X.CanonChooser(rnd, set())
    tiny = {"before": [], "after": [], "root": {"ns": "", "ln": "a", "decls": [], "attrs": [], "kids": [{"ns": "", "ln": "b", "decls": [], "attrs": [], "kids": []}]}}
    for sp in (X.piece("lit", 32), X.piece("lit", 9), X.piece("eol", e="lf"), X.piece("eol", e="cr"), X.piece("eol", e="crlf")):
        for refd in (False, True):
            for apx, aln in (("xmlns", "p"), ("", "xmlns"), ("", "k"), ("xml", "id")):
                toks = X.render_doc(tiny, canon, "doc")
                stag = [t for t in toks if t["k"] == "stag"][0]
                X.add_attr(stag, apx, aln, [X.piece("hex", 117, up=False) if refd else X.piece("lit", 117), sp, X.piece("lit", 118)], q=rnd.choice([34, 39]))
                add("doc", toks, "yes", ids=[X.cps("u v")] if aln == "id" else [], encs=[])
                counts["enumerated"] += 1
    # code -> spec: random documents x random renderings (+ damage catalogue, + fragments)
    ndocs = 250 if quick else 12000
    for k in range(ndocs):
        doc = X.rand_doc(rnd, size=rnd.choice([4, 8, 14, 25] if quick else [4, 8, 14, 25, 60]), depth=rnd.choice([1, 2, 3, 5]), rich=True)
        ch = X.RandomChooser(rnd)
        mode = "doc"
        try:
            if k % 5 == 4:
                mode = "frag"
                toks = X.render_doc({"kids": doc["root"]["kids"]}, ch, "frag")
            else:
                toks = X.render_doc(doc, ch, "doc")
        except ValueError:
            continue
        has_bom = bool(toks) and toks[0]["k"] == "bom"        # (the byte encodings add their own mark)
        add(mode, toks, "yes", ids=X.doc_ids(doc), encs=encs_all if (mode == "doc" and k % 3 == 0 and not has_bom) else [])
        counts["random"] += 1
        if mode == "doc" and k % 6 == 1:
            # single-byte encodings with a declaration: only characters on which ISO-8859-1 and windows-1252 agree
            ltxt = json.dumps(doc, default=list).replace("128512", "233")
            if k % 12 == 1:
                # Latin-1 text whose bytes happen to be well-formed UTF-8 ("Ã©" = C3 A9): the declared encoding decides
                import re as _re
                ltxt = _re.sub(r"\b233\b", "195, 169", ltxt)
            ldoc = json.loads(ltxt)
            ldoc = retuple(ldoc)
            label = rnd.choice(["ISO-8859-1", "iso-8859-1", "windows-1252"])
            try:
                ltoks = X.render_doc(ldoc, ch, "doc", encoding=label)
                if any(c > 255 or 0x80 <= c <= 0x9F for c in X.text_of(ltoks)):
                    raise ValueError("not expressible in a single-byte encoding (a prefix or name outside Latin-1)")
                j = {"mode": "doc", "text": X.text_of(ltoks), "toks": ltoks, "hastoks": True, "expectwf": "yes", "dmg": "", "encs": ["latin1"], "idq": [X.cps("nope")], "strskip": False}
                jobs.append(j)
                counts["random"] += 1
            except ValueError:
                pass
        if prop in ("C03", "C17"):
            kinds = rnd.sample(X.DAMAGES, 4 if quick else 8)
            for kind in kinds:
                if mode == "frag" and kind in ("delete-root", "second-root", "top-text", "unclosed-root", "dtd", "version-1.1", "stray-etag-top"):
                    if kind != "stray-etag-top":
                        continue
                d = X.damage(toks, kind, rnd, mode)
                if d is not None:
                    add(mode, d, "no", dmg=kind, encs=["utf8"] if mode == "doc" else [])
                    counts["damaged"] += 1
    # fuzz: arbitrary strings and byte strings (no tokens: only totality and soundness of what is accepted are judged)
    if prop == "C03":
        nf = 1500 if quick else 60000
        base = [j["text"] for j in jobs[:400]]
        for k in range(nf):
            r = rnd.random()
            job = {"mode": "doc" if k % 3 else "frag", "toks": [], "hastoks": False, "expectwf": "any", "dmg": "fuzz", "encs": [], "idq": []}
            if r < 0.25:
                job["text"] = []
                job["bytes"] = [rnd.randrange(256) for _ in range(rnd.randrange(0, 40))]
                job["notext"] = True
            elif r < 0.45:
                job["text"] = [rnd.choice([60, 62, 47, 38, 59, 35, 120, 97, 34, 39, 61, 32, 33, 45, 63, 91, 93, 58, 10, 13, 0x1F600, 233, rnd.randrange(1, 0xD7FF)]) for _ in range(rnd.randrange(0, 30))]
            else:
                t = list(rnd.choice(base))
                for _ in range(rnd.choice([1, 1, 2, 3])):
                    m = rnd.random()
                    if not t:
                        break
                    i = rnd.randrange(len(t))
                    if m < 0.25:
                        t = t[:i]
                    elif m < 0.5:
                        j2 = rnd.randrange(len(t))
                        t = t[:i] + t[min(i, j2):max(i, j2)] + t[i:]
                    elif m < 0.75:
                        t[i] = rnd.choice([60, 62, 38, 34, 39, 47, 93, 0, 1, 11, 0xFFFE])
                    else:
                        del t[i:i + rnd.randrange(1, 4)]
                job["text"] = [c for c in t if c < 0xD800 or c > 0xDFFF]
                if rnd.random() < 0.3:
                    job["encs"] = [rnd.choice(encs_all + ["latin1"])]
            jobs.append(job)
            counts["fuzz"] += 1
    rnd.shuffle(jobs)
    return jobs, counts


def parser_check(prop, tier, seed):
    """C02 / C03 / C17: the parser against XotParse!Denote / WF / spans."""
    quick = tier == "quick"
    exe = vlib.build_harness()
    d = vlib.workdir(f"parse_{prop}")
    cfgname = write_cfg(f"gen_{prop}_lex.cfg", LEX_CFG.format(maxlen=5 if quick else 6))
    r_mc = mc("MCLex.tla", cfgname, workers=12, timeout=1800, tag=prop + "_lex")
    os.remove(os.path.join(vlib.SPEC, cfgname))
    # the tree builder of src/parse.rs as transcribed (XotParseL2) against Denote on every token sequence up to a bound,
    # soundness of what Denote accepts, and parse_fragment = content of the wrapped document
    cfgname = write_cfg(f"gen_{prop}_parse.cfg", "SPECIFICATION Spec\nCONSTANTS\n  MaxToks = %d\nINVARIANTS Agree AcceptedIsSound FragmentIsWrappedContent\nCHECK_DEADLOCK FALSE\n" % (4 if quick else 5))
    r_mp = mc("MCParse.tla", cfgname, workers=12, timeout=3000, tag=prop + "_parsemc")
    os.remove(os.path.join(vlib.SPEC, cfgname))
    jobs, counts = parser_jobs(prop, tier, seed)
    jp = os.path.join(d, "jobs.ndjson")
    with open(jp, "w") as fh:
        for j in jobs:
            fh.write(json.dumps(j) + "\n")
    op = os.path.join(d, "out.ndjson")
    try:
        vlib.run_harness(exe, ["parse", "--jobs", jp, "--out", op], timeout=900 if quick else 7200)
    except subprocess.TimeoutExpired:
        path = vlib.save_replay(prop, {"kind": "parse-hang"}, {"hang": "a parse entry point did not return within the watchdog limit"})
        return {"violations": [path] if prop == "C03" else [], "known": [], "coverage": {"evaluations": len(jobs), "distinct_nontrivial": 2, "samples": [], "explanation": "hang"}, "assumptions": []}
    v = vlib.validate_trace_flat(op, module="TraceParse.tla", cfg="TraceParse.cfg", nshards=14, timeout=1800 if quick else 10000, tag=prop + "_parse")
    violations, known, other = [], {}, 0
    for rj in v["rejects"]:
        if rj["prop"] == "TOOL":
            ev = json.loads(v["lines"][rj["line"]])
            raise ToolError(f"generator / specification inconsistency: {rj['detail']} text={''.join(map(chr, ev['text']))!r}")
        if rj["prop"] != prop:
            other += 1
            continue
        if rj["known"]:
            known.setdefault(rj["known"], 0)
            known[rj["known"]] += 1
            continue
        if len(violations) < 25:
            ev = json.loads(v["lines"][rj["line"]])
            sc = {"kind": "parse", "job": {k: ev.get(k) for k in ("mode", "text", "toks", "hastoks", "expectwf", "dmg", "encs", "idq", "bytes")}}
            violations.append(vlib.save_replay(prop, sc, rj))
            log(f"  reject: entry={rj['op']} dmg={ev['dmg']} text={''.join(map(chr, ev['text']))[:120]!r} detail={json.dumps(rj['detail'])[:300]}")
    kf = {f["id"]: f for f in vlib.load_known()}
    known_lines = [f"{kid} ({cnt} events): {kf.get(kid, {}).get('what', '')}" for kid, cnt in sorted(known.items())]
    runs = sum(len(json.loads(l)["runs"]) for l in v["lines"][:2000]) * max(1, len(v["lines"]) // max(1, min(len(v["lines"]), 2000)))
    distinct = len({l[:4000] for l in (json.dumps(j["text"]) + j["mode"] for j in jobs)})
    smp = [{"mode": j["mode"], "dmg": j["dmg"], "text": "".join(map(chr, j["text"]))[:200]} for j in jobs[:3]]
    cov = {
        "states": r_mc["distinct"] + r_mp["distinct"], "transitions": r_mc["generated"] + r_mp["generated"],
        "traces_validated_against_impl": len(jobs),
        "evaluations": runs, "distinct_nontrivial": distinct,
        "rule": "one event per input text, fed to every parse entry point (and byte encodings); TLC computes what its tokens denote (XotParse) and compares tree, xml:id index, spans and verdict; distinct = distinct (text, mode) inputs",
        "samples": smp, "exhaustive": False, "inputs": counts,
        "rejections_charged_to_other_properties": other,
    }
    import shutil
    shutil.rmtree(d, ignore_errors=True)
    return {"violations": violations, "known": known_lines, "coverage": cov,
            "assumptions": ["TLC 1.8 and the Json/IOUtils community modules", "the Python renderer only chooses spellings; TLC checks that its text equals TextOf(tokens) and that its pieces spell its parts",
                            "byte encodings: a trivial encoder in the harness; UTF-8 / UTF-16 with BOM only", "character classes enumerated exhaustively; full Unicode only sampled"]}


SER_CFG = """SPECIFICATION Spec
CONSTANTS
  MaxLen = {maxlen}
  AttrMaxLen = {attrmax}
  Alphabet = {alphabet}
  Dump = TRUE
INVARIANTS InDomainAlways DumpState RT
CHECK_DEADLOCK FALSE
"""

SER_NAMES = [["", "a"], ["", "b"], ["u1", "a"], ["u2", "c"]]


def rich_text(rnd, brackets=False):
    alpha = [93, 93, 62, 62, 93, 120, 60, 38, 13, 233, 0x1F600] if brackets else [120, 60, 38, 62, 93, 34, 39, 9, 10, 13, 233, 0x1F600, 32, 121, 0x85, 0x2028, 0xA0]      # (NEL, LS, NBSP: ordinary characters in XML 1.0)
    return [rnd.choice(alpha) for _ in range(rnd.randrange(1, 7))]


def doc_to_forest(doc):
    """an abstract document of xmlgen ({before, root, after}; elements {ns, ln, decls, attrs, kids}) as a forest of gen"""
    import gen
    f = gen.Forest(True)
    top = f.add(gen.node("doc"))

    def leaf(k, par):
        if k[0] == "text":
            f.add(gen.node("text", t=list(k[1])), par)
        elif k[0] == "comm":
            f.add(gen.node("comm", t=list(k[1])), par)
        else:
            f.add(gen.node("pi", ln=k[1], t=list(k[2] or []), d=k[2] is not None), par)

    def el(e, par):
        i = f.add(gen.node("elem", ns=e["ns"], ln=e["ln"]), par)
        for px, uri in e["decls"]:
            f.add(gen.node("nsn", ln=px, u=uri), i)
        for a in e["attrs"]:
            f.add(gen.node("attr", ns=a[0], ln=a[1], t=list(a[2])), i)
        for k in e["kids"]:
            if isinstance(k, dict):
                el(k, i)
            else:
                leaf(k, i)

    for k in doc.get("before", []):
        leaf(k, top)
    el(doc["root"], top)
    for k in doc.get("after", []):
        leaf(k, top)
    return f


def ser_params(rnd, prop, k):
    """serialisation parameters of job k: C01 always default; C14 every combination over time; C16 token-relevant ones"""
    if prop == "C01" or (prop == "C16" and k % 4 == 0):
        return {"cdata": [], "ugt": False, "decl": 0, "indent": False, "suppress": []}
    p = {"cdata": rnd.sample(SER_NAMES, rnd.choice([0, 1, 1, 2, 4])), "ugt": rnd.random() < 0.5, "decl": rnd.choice([0, 1, 2, 3]),
         "indent": rnd.random() < 0.45, "suppress": rnd.sample(SER_NAMES, rnd.choice([0, 0, 1, 2]))}
    if prop == "C16":
        p["decl"] = 0
    return p


def ser_check(prop, tier, seed):
    """C01 / C14 / C16: the XML serialiser against XotSerial."""
    import gen
    quick = tier == "quick"
    exe = vlib.build_harness()
    d = vlib.workdir(f"ser_{prop}")
    rnd = random.Random(seed)
    mcs = []
    if prop in ("C01", "C14"):
        cfgname = write_cfg(f"gen_{prop}_lex.cfg", LEX_CFG.format(maxlen=5 if quick else 6))
        mcs.append(mc("MCLex.tla", cfgname, workers=12, timeout=1800, tag=prop + "_lex"))
        os.remove(os.path.join(vlib.SPEC, cfgname))
    else:
        cfgname = write_cfg(f"gen_{prop}_tree.cfg", TREE_CFG.format(maxnode=3 if quick else 4, l2eq="L2EqRefines" if (prop == "C13" or not quick) else ""))
        mcs.append(mc("MCTree.tla", cfgname, workers=12, timeout=3000, tag=prop + "_tree"))
        os.remove(os.path.join(vlib.SPEC, cfgname))
    jobs = []
    what = {"C01": ["roundtrip"], "C14": ["roundtrip"], "C16": ["tokens"]}[prop]
    counts = {"enumerated_documents": 0, "enumerated_forests": 0, "random": 0}
    # spec -> code: every <a b="V">T</a> with strings <= 2 over the class alphabet (TLC-enumerated, inside the domain)
    docs, r_ser = dump_states("MCSer.tla", SER_CFG.format(maxlen=2, attrmax=2, alphabet="{120, 60, 38, 62, 93, 34, 39, 9, 10, 13, 233, 128512}"), prop + "_ser")
    mcs.append(r_ser)
    rnd.shuffle(docs)
    if prop in ("C01", "C14"):
        # every text of length <= 4 (5 thorough) over {x ] > < & CR}: the ]]> guard, the CDATA splitter, CR - under every
        # combination of unescaped_gt and "the parent is a CDATA-section element"
        bdocs, r_b = dump_states("MCSer.tla", SER_CFG.format(maxlen=4 if quick else 5, attrmax=0, alphabet="{120, 93, 62, 60, 13, 233}"), prop + "_brackets")
        mcs.append(r_b)
        rnd.shuffle(bdocs)
        for k, st in enumerate(bdocs[: (3200 if quick else 20000)]):
            if prop == "C01":
                jobs.append({"st": st, "root": 1, "frag": False, "what": what, "cdata": [], "ugt": False, "decl": 0, "indent": False, "suppress": []})
            else:
                for cd in ([], [["", "a"]]):
                    for ugt in (False, True):
                        jobs.append({"st": st, "root": 1, "frag": False, "what": what, "cdata": cd, "ugt": ugt, "decl": 0, "indent": False, "suppress": []})
                        counts["enumerated_documents"] += 1
                continue
            counts["enumerated_documents"] += 1
    for k, st in enumerate(docs[: (1500 if quick else 50000)]):
        j = {"st": st, "root": 1, "frag": False, "what": what}
        j.update(ser_params(rnd, prop, k))
        jobs.append(j)
        counts["enumerated_documents"] += 1
    # every two-level declaration layout of MCScope (default declared / redeclared / undeclared, shadowing, several prefixes
    # per namespace): only the usable ones are judged by the round trip
    if prop in ("C01", "C14"):
        layouts, r_sc = dump_states("MCScope.tla", scope_cfg(prop), prop + "_scope")
        mcs.append(r_sc)
        rnd.shuffle(layouts)
        for k, st in enumerate(layouts[: (2500 if quick else 24000)]):
            j = {"st": st, "root": 1, "frag": False, "what": what}
            j.update(ser_params(rnd, prop, k))
            jobs.append(j)
            counts["enumerated_documents"] += 1
    # C14: every xml:space / mixed-content layout of MCPretty x indentation with each suppress list
    if prop in ("C14", "C16"):
        pdocs, r_p = dump_states("MCPretty.tla", "SPECIFICATION Spec\nCONSTANT Dump = TRUE\nINVARIANTS InDomainAlways PrettyReflexive DumpState\nCHECK_DEADLOCK FALSE\n", prop + "_pretty")
        mcs.append(r_p)
        for st in pdocs:
            for sup in ([], [["", "a"]], [["", "r"]], [["", "a"], ["", "r"]], [["", "zz"], ["", "b"], ["", "a"]]):
                jobs.append({"st": st, "root": 1, "frag": False, "what": what, "cdata": [], "ugt": False, "decl": 0, "indent": True, "suppress": sup})
                counts["enumerated_documents"] += 1
            # and the element-rooted subtree r serialised on its own
            jobs.append({"st": st, "root": 2, "frag": False, "what": what, "cdata": [], "ugt": False, "decl": 0, "indent": True, "suppress": []})
    # all small forests (TLC dump of the L1 machine): every doc / element root, parentless or not (C16: subtrees)
    if prop == "C16":
        states, r_dump = forest_states(tier, seed, prop)
        mcs.append(r_dump)
        rnd.shuffle(states)
        sel = states[: (400 if quick else 5200)]
        emptied = []
        for st in sel[: (150 if quick else 2000)]:
            texts = [i for i, nd in enumerate(st["n"]) if nd["k"] == "text" and nd["t"]]
            if texts:
                st2 = json.loads(json.dumps(st))
                st2["n"][rnd.choice(texts)]["t"] = []          # an explicitly created empty text node has its event too
                emptied.append(st2)
        for k, st in enumerate(sel + emptied):
            for i, nd in enumerate(st["n"]):
                if nd["k"] in ("doc", "elem", "text", "comm", "pi"):
                    j = {"st": st, "root": i + 1, "frag": False, "what": what}
                    j.update(ser_params(rnd, prop, k))
                    jobs.append(j)
                    counts["enumerated_forests"] += 1
    # code -> spec: random forests with dangerous text, xml:space at any depth, every parameter combination
    nrand = 500 if quick else 20000
    for k in range(nrand):
        f, roots = gen.random_forest(rnd, rnd.choice([4, 8, 14, 24] if quick else [4, 8, 14, 24, 50]), shape=["mixed", "mixed", "chain", "fan"][k % 4], nsrich=(k % 2 == 0), trees=1)
        for nd in f.n:
            if nd["k"] == "text":
                nd["t"] = rich_text(rnd, brackets=(prop == "C14" and k % 2 == 0)) if rnd.random() < 0.8 else nd["t"]
            if nd["k"] == "attr" and nd["ns"] != gen.XMLNS:
                nd["t"] = rich_text(rnd)
            if nd["k"] == "nsn" and nd["u"] and rnd.random() < 0.1:
                nd["u"] = rnd.choice(["http://x?a=1&b=2", "u v", "u\"q"])
            # names, comments and PI data outside ASCII (a character is not a byte: indentation and widths count characters)
            if nd["k"] == "elem" and rnd.random() < 0.08:
                nd["ln"] = rnd.choice(["\u00e9", "caf\u00e9", "\u65e5\u672c", "a\u00e9\u00e9\u00e9"])
            if nd["k"] == "comm" and rnd.random() < 0.25:
                nd["t"] = gen.cps(rnd.choice(["\u20ac\u20ac", "\u00e9", "x\U0001F600y"]))
            if nd["k"] == "pi" and nd["d"] and rnd.random() < 0.25:
                nd["t"] = gen.cps(rnd.choice(["\u212a \u20ac", "\u00e9\u00e9"]))
        root = roots[0]
        isdoc = f.n[root - 1]["k"] == "doc"
        wf = isdoc and len([c for c in f.n[root - 1]["c"] if f.n[c - 1]["k"] == "elem"]) == 1 and not any(f.n[c - 1]["k"] == "text" for c in f.n[root - 1]["c"])
        roots_here = [root]
        if prop == "C16":
            roots_here += [i + 1 for i, nd in enumerate(f.n) if nd["k"] == "elem" and nd["p"] != 0][:2]
        for r in roots_here:
            j = {"st": f.state(), "root": r, "frag": bool(isdoc and not wf and r == root), "what": what}
            j.update(ser_params(rnd, prop, k))
            jobs.append(j)
            counts["random"] += 1
    # the "scope exit" documents of the parser checks as trees: a binding made or shadowed on an inner element and the
    # same prefix (or the default namespace) used again behind it with its outer meaning
    import xmlgen as X
    for doc in X.scope_exit_docs():
        ff = doc_to_forest(doc)
        j = {"st": ff.state(), "root": 1, "frag": False, "what": what}
        j.update(ser_params(rnd, prop, counts["random"]))
        jobs.append(j)
        counts["random"] += 1
    # namespace names that need escaping, as the DEFAULT declaration and under a prefix, with names living in them; and one
    # document whose xml:id values carry every kind of white space at their edges (only #x20 is not part of an ID)
    for uri in ("http://x?a=1&b=2", "u\"q", "u v", "a<b", "t\tb", "l\nf", "c\rr", "u&amp;v"):
        for px in ("", "p"):
            ff = gen.Forest(True)
            top = ff.add(gen.node("doc"))
            e = ff.add(gen.node("elem", ns=uri, ln="a"), top)
            ff.add(gen.node("nsn", ln=px, u=uri), e)
            if px:
                ff.add(gen.node("attr", ns=uri, ln="k", t=gen.cps("v")), e)
            ff.add(gen.node("elem", ns=uri, ln="b"), e)
            j = {"st": ff.state(), "root": 1, "frag": False, "what": what}
            j.update(ser_params(rnd, prop, counts["random"]))
            jobs.append(j)
            counts["random"] += 1
    ff = gen.Forest(True)
    top = ff.add(gen.node("doc"))
    e = ff.add(gen.node("elem", ln="a"), top)
    for v in ("i1", "\u00a0i6", "i7\u3000", "\ti4", "i5\r", "a\tb", "\ni8", "\u2003i9\u2003", "x y"):
        c = ff.add(gen.node("elem", ln="b"), e)
        ff.add(gen.node("attr", ns=gen.XMLNS, ln="id", t=gen.cps(v)), c)
    j = {"st": ff.state(), "root": 1, "frag": False, "what": what}
    j.update(ser_params(rnd, prop, counts["random"]))
    jobs.append(j)
    counts["random"] += 1
    # fragments whose top level mixes elements, comments and PIs with character data that is white space only (a fragment
    # keeps it: it is content like any other) or starts / ends with white space
    for k in range(60 if quick else 1500):
        ff = gen.Forest(True)
        top = ff.add(gen.node("doc"))
        last_text = False
        for _ in range(rnd.randrange(1, 6)):
            r = rnd.random()
            if r < 0.45 and not last_text:
                ff.add(gen.node("text", t=gen.cps(rnd.choice([" ", "\n", "\t", " \n ", "\r", "  ", " x", "x ", "\n\n", "x"]))), top)
                last_text = True
                continue
            last_text = False
            if r < 0.75:
                e = ff.add(gen.node("elem", ln=rnd.choice(gen.LNS)), top)
                if rnd.random() < 0.4:
                    ff.add(gen.node("text", t=gen.cps(rnd.choice([" ", "y", "\n"]))), e)
            elif r < 0.9:
                ff.add(gen.node("comm", t=gen.cps("c")), top)
            else:
                ff.add(gen.node("pi", ln="a", t=gen.cps("d"), d=True), top)
        kids = ff.n[top - 1]["c"]
        wf_doc = len([c for c in kids if ff.n[c - 1]["k"] == "elem"]) == 1 and not any(ff.n[c - 1]["k"] == "text" for c in kids)
        j = {"st": ff.state(), "root": top, "frag": not wf_doc, "what": what}
        j.update(ser_params(rnd, prop, k))
        if j.get("decl"):
            j["decl"] = 0
        jobs.append(j)
        counts["random"] += 1
    if prop in ("C14", "C16"):
        # very deep element-only nesting with indentation on: indentation is two spaces per level at ANY depth
        for depth in ((36, 70) if quick else (36, 70, 130)):
            fd = gen.Forest(True)
            cur = fd.add(gen.node("elem", ln="a"))
            for lv in range(depth):
                cur = fd.add(gen.node("elem", ln="abc"[lv % 3]), cur)
                if lv % 17 == 5:
                    fd.add(gen.node("elem", ln="b"), fd.n[cur - 1]["p"])       # a sibling now and then
            jobs.append({"st": fd.state(), "root": 1, "frag": False, "what": what, "cdata": [], "ugt": False, "decl": 0, "indent": True, "suppress": []})
            counts["random"] += 1
    rnd.shuffle(jobs)
    jp = os.path.join(d, "jobs.ndjson")
    with open(jp, "w") as fh:
        for j in jobs:
            fh.write(json.dumps(j) + "\n")
    op = os.path.join(d, "out.ndjson")
    vlib.run_harness(exe, ["ser", "--jobs", jp, "--out", op], timeout=900 if quick else 7200)
    v = vlib.validate_trace_flat(op, module="TraceSer.tla", cfg="TraceSer.cfg", nshards=14, timeout=1800 if quick else 10000, tag=prop + "_ser")
    violations, known, other, xnorm = [], {}, 0, 0
    other += vlib.buildfail(op, prop, violations, known, prop)
    for rj in v["rejects"]:
        if rj["prop"] == "TOOL":
            raise ToolError(f"generated state rejected as input: {rj['detail']}")
        if rj["prop"] == "X-NORM":
            # the normaliser law is behaviour beyond the listed properties: noted, never a violation
            xnorm += 1
            if xnorm <= 3:
                log(f"  NOTE beyond-property law (serialisation with a normaliser) rejected: {json.dumps(rj['detail'])[:200]}")
            continue
        if rj["prop"] != prop:
            other += 1
            continue
        if rj["known"]:
            known.setdefault(rj["known"], 0)
            known[rj["known"]] += 1
            continue
        if len(violations) < 25:
            ev = json.loads(v["lines"][rj["line"]])
            sc = {"kind": "ser", "job": {k: ev.get(k) for k in ("st", "root", "cdata", "ugt", "decl", "indent", "suppress", "frag", "what")}}
            violations.append(vlib.save_replay(prop, sc, rj))
            log(f"  reject: params={ {k: ev[k] for k in ('cdata','ugt','decl','indent','suppress','frag')} } text={''.join(map(chr, ev['text']))[:160]!r} detail={json.dumps(rj['detail'])[:200]}")
    kf = {f["id"]: f for f in vlib.load_known()}
    known_lines = [f"{kid} ({cnt} events): {kf.get(kid, {}).get('what', '')}" for kid, cnt in sorted(known.items())]
    pcombos = {(tuple(map(tuple, j["cdata"])), j["ugt"], j["decl"], j["indent"], tuple(map(tuple, j["suppress"]))) for j in jobs}
    distinct = len({json.dumps(j["st"]["n"]) + str(j["root"]) for j in jobs})
    cov = {
        "states": sum(r["distinct"] for r in mcs), "transitions": sum(r["generated"] for r in mcs),
        "traces_validated_against_impl": len(jobs), "evaluations": len(jobs), "distinct_nontrivial": distinct,
        "rule": "one event per (forest, root, parameter set): serialised by every entry point of the real crate, reparsed; TLC judges round trip / indentation relation / token and event laws; distinct = distinct (forest, root) pairs",
        "samples": [{"params": {k: jobs[0][k] for k in ("cdata", "ugt", "decl", "indent", "suppress")}, "first_nodes": jobs[0]["st"]["n"][:4]}],
        "exhaustive": False, "inputs": counts, "parameter_combinations": len(pcombos),
        "rejections_charged_to_other_properties": other,
        "normaliser_law": {"events_where_NormF_changes_a_value": sum(1 for j in jobs if not j["indent"] and any(nd["k"] in ("text", "attr") and any(c in (120, 233, 128512, 121) for c in nd["t"]) for nd in j["st"]["n"])),
                           "rejections_beyond_the_property": xnorm},
    }
    import shutil
    shutil.rmtree(d, ignore_errors=True)
    return {"violations": violations, "known": known_lines, "coverage": cov,
            "assumptions": ["TLC 1.8 and the Json/IOUtils community modules", "the reparse uses xot's own parser, which C02 ties to XML's meaning",
                            "harness state builder and projection", "strings <= 2 over 12 character classes enumerated exhaustively; longer strings and full Unicode sampled"]}


INTERN_CFG = """SPECIFICATION Spec
CONSTANTS
  Strings = {{"a", "b", "c"}}
  W = 3
  MaxOps = {maxops}
INVARIANTS L1Injective Stable L2InjectiveWhileSmall L2Breaks
CHECK_DEADLOCK FALSE
"""


def intern_check(prop, tier, seed):
    """C08: interning tables."""
    quick = tier == "quick"
    exe = vlib.build_harness()
    d = vlib.workdir("intern")
    cfgname = write_cfg("gen_C08_mc.cfg", INTERN_CFG.format(maxops=6 if quick else 8))
    r_mc = mc("MCIntern.tla", cfgname, workers=8, timeout=1800, tag="C08_mc")
    os.remove(os.path.join(vlib.SPEC, cfgname))
    tp = os.path.join(d, "trace.ndjson")
    episodes = 150 if quick else 3000
    vlib.run_harness(exe, ["intern-drive", "--seed", str(seed), "--episodes", str(episodes), "--len", "120", "--big", "70000", "--out", tp], timeout=1200)
    v = vlib.validate_trace(tp, module="TraceIntern.tla", cfg="TraceIntern.cfg", nshards=12, timeout=1800, tag="C08")
    violations, known = [], {}
    for rj in v["rejects"]:
        if rj["known"]:
            known.setdefault(rj["known"], 0)
            known[rj["known"]] += 1
            continue
        if len(violations) < 25:
            # the episode up to the rejected event is the replay
            start = rj["line"]
            while start > 0 and '"op":"reset"' not in v["lines"][start]:
                start -= 1
            sc = {"kind": "intern", "events": [json.loads(l) for l in v["lines"][start: rj["line"] + 1]][-50:], "seed": seed}
            violations.append(vlib.save_replay(prop, sc, rj))
            log(f"  reject: {json.dumps(rj['detail'])[:300]}")
    kf = {f["id"]: f for f in vlib.load_known()}
    known_lines = [f"{kid} ({cnt} events): {kf.get(kid, {}).get('what', '')}" for kid, cnt in sorted(known.items())]
    kinds = {(json.loads(l)["op"], json.loads(l)["tbl"], json.loads(l)["has"]) for l in v["lines"][:5000]}
    cov = {"states": r_mc["distinct"] + v["distinct"], "transitions": r_mc["generated"] + v["states"],
           "traces_validated_against_impl": episodes, "evaluations": v["events"], "distinct_nontrivial": len(kinds),
           "rule": "one event per add_* / lookup / bulk registration / clone / parse / html5 call on the real crate; TLC replays L1 and requires an injective class<->id correspondence, exact lookups and exact read-back; distinct = (operation, table, found) classes",
           "samples": [json.loads(l) for l in v["lines"][1:3]], "exhaustive": False, "bulk_registrations_per_table": 70000}
    import shutil
    shutil.rmtree(d, ignore_errors=True)
    return {"violations": violations, "known": known_lines, "coverage": cov,
            "assumptions": ["TLC 1.8 and the Json/IOUtils community modules", "ids are compared with == by the harness (first-seen class numbering)",
                            "bulk ranges are registered in order by the driver and summarised (count of fresh ids, contiguity, read-back) so that >2^16 registrations stay cheap to validate"]}


HTML_CFG = "SPECIFICATION Spec\nCONSTANTS\n  Dump = TRUE\n  Full = {full}\nINVARIANTS ValidInput DumpState\nCHECK_DEADLOCK FALSE\n"
HTML_NAMES = ["br", "BR", "Br", "img", "hr", "span", "em", "pre", "textarea", "div", "p", "table", "zzz", "script", "style", "SCRIPT", "svg", "math", "title", "input", "li",
              "xmp", "iframe", "noembed", "noframes", "plaintext", "XMP", "noscript",
              "lin\u212a", "trac\u212a", "LIN\u212a"]      # U+212A KELVIN SIGN is a name character whose Unicode lower case is ASCII k: HTML matches names ASCII-case-insensitively only      # raw text in a browser, ordinary escaped text for the serialiser
HTML_NSS = ["", "http://www.w3.org/1999/xhtml", "http://www.w3.org/1998/Math/MathML", "http://www.w3.org/2000/svg", "u1"]


def html_check(prop, tier, seed):
    """C19: the HTML5 output method."""
    import gen
    quick = tier == "quick"
    exe = vlib.build_harness()
    d = vlib.workdir("html")
    rnd = random.Random(seed)
    # the two HTML escapers as transcribed, on every string over the characters an HTML tokenizer cares about
    cfgname = write_cfg("gen_C19_lexhtml.cfg", "SPECIFICATION Spec\nCONSTANTS\n  MaxLen = %d\n  Alphabet = {120, 38, 60, 62, 34, 39, 160, 123, 59, 35}\nINVARIANTS HtmlTextOk HtmlAttrOk\nCHECK_DEADLOCK FALSE\n" % (5 if quick else 6))
    r_lex = mc("MCLexHtml.tla", cfgname, workers=8, timeout=1800, tag="C19_lexhtml")
    os.remove(os.path.join(vlib.SPEC, cfgname))
    states, r_g = dump_states("MCHtml.tla", HTML_CFG.format(full="FALSE" if quick else "TRUE"), "C19_html")
    rnd.shuffle(states)
    jobs = []
    counts = {"enumerated": 0, "random": 0}
    sup_opts = [[], [["", "div"]], [["", "pre"], ["http://www.w3.org/1999/xhtml", "DIV"]]]
    cd_opts = [[], [["", "zzz"]], [["", "div"], ["u1", "zzz"]]]
    def raw_name_ok(st):
        # script / style are only meaningful as HTML element names; elsewhere an HTML tokenizer would misread the output
        return all(not (nd["k"] == "elem" and nd["ln"].lower() in ("script", "style") and nd["ns"] not in ("", "http://www.w3.org/1999/xhtml")) for nd in st["n"])
    states = [st for st in states if raw_name_ok(st)]
    for k, st in enumerate(states[: (4000 if quick else 90000)]):
        roots = [1]
        if k % 7 == 0:
            # serialise inner nodes on their own too (not a text node in place: how its parent escapes it is not the
            # question the property asks about a node serialised by itself)
            roots += [i + 1 for i, nd in enumerate(st["n"]) if i > 0 and nd["k"] != "text"][:3]
        for r in roots:
            jobs.append({"st": st, "root": r, "indent": k % 3 == 0, "suppress": sup_opts[k % 3] if k % 3 == 0 else [], "cdata": cd_opts[(k // 3) % 3]})
            counts["enumerated"] += 1
    # the namespace bookkeeping layouts (scopes pushed for an element must be popped before its sibling is written)
    nsl, r_ns = dump_states("MCHtmlNs.tla", "SPECIFICATION Spec\nCONSTANTS\n  Dump = TRUE\nINVARIANTS ValidInput L2HtmlRefines L2HtmlTotal DumpState\nCHECK_DEADLOCK FALSE\n", "C19_htmlns")
    rnd.shuffle(nsl)
    for k, st in enumerate(nsl[: (2500 if quick else 12000)]):
        jobs.append({"st": st, "root": 1, "indent": k % 5 == 0, "suppress": [], "cdata": []})
        counts["enumerated"] += 1
    # random trees over HTML names in any case, all namespaces, any text / attribute content, PIs with and without '>'
    for k in range(1500 if quick else 20000):
        f, roots = gen.random_forest(rnd, rnd.choice([3, 6, 10, 16]), shape="mixed", nsrich=(k % 4 == 0), trees=1)
        for nd in f.n:
            if nd["k"] == "elem":
                nd["ln"] = rnd.choice(HTML_NAMES)
                nd["ns"] = rnd.choice(HTML_NSS)
                if nd["ln"].lower() in ("script", "style") and nd["ns"] not in ("", "http://www.w3.org/1999/xhtml"):
                    nd["ns"] = ""
            if nd["k"] == "text":
                nd["t"] = [c for _ in range(rnd.randrange(1, 5))
                           for c in gen.cps(rnd.choice(["x", "<", "&", ">", '"', "'", "\u00a0", " ", "\u00e9", "&{", "&#", "&amp;", "&lt", "</", "]]>", "{", ";", "#"]))]
            if nd["k"] == "attr" and nd["ns"] != gen.XMLNS:
                # values built from digraphs that matter to an HTML escaper (script macro, references with and without ';')
                nd["t"] = [c for _ in range(rnd.randrange(0, 4))
                           for c in gen.cps(rnd.choice(["x", "<", "&", ">", '"', "'", "\u00a0", "&{", "&{x}", "&#", "&#1;", "&amp;", "&amp", "&x;", "&&", "{", ";", "#"]))]
                if rnd.random() < 0.2:
                    nd["ln"], nd["t"] = "checked", gen.cps(rnd.choice(["checked", "CHECKED"]))
            if nd["k"] == "pi":
                nd["ns"] = ""
                if nd["d"]:
                    nd["t"] = gen.cps(rnd.choice(["d", "a>b", "x y"]))
        # the xml prefix declared explicitly (legal, and never written): on an inner element, possibly its only declaration
        if k % 6 == 1:
            inner = [i + 1 for i, nd in enumerate(f.n) if nd["k"] == "elem" and nd["p"] and not any(f.n[c - 1]["k"] == "nsn" and f.n[c - 1]["ln"] == "xml" for c in nd["c"])]
            for t in rnd.sample(inner, min(len(inner), 2)):
                f.add(gen.node("nsn", ln="xml", u=gen.XMLNS), t)
        # real XHTML documents: a default declaration for the XHTML namespace on the top element
        if k % 3 == 0:
            tops = [i + 1 for i, nd in enumerate(f.n) if nd["k"] == "elem" and (nd["p"] == 0 or f.n[nd["p"] - 1]["k"] == "doc")]
            for t in tops[:1]:
                if not any(f.n[c - 1]["k"] == "nsn" and f.n[c - 1]["ln"] == "" for c in f.n[t - 1]["c"]):
                    f.add(gen.node("nsn", ln="", u="http://www.w3.org/1999/xhtml"), t)
                    for nd in f.n:
                        if nd["k"] == "elem" and nd["ns"] in ("", "u1"):
                            nd["ns"] = "http://www.w3.org/1999/xhtml"
        # text in script/style must not contain the end-tag opener; keep '<' out of those texts
        for nd in f.n:
            if nd["k"] == "text" and nd["p"] and f.n[nd["p"] - 1]["ln"].lower() in ("script", "style"):
                nd["t"] = [c for c in nd["t"] if c != 60] or [120]
        # script / style hold raw text only: element / comment / PI children are moved out (they become roots)
        for nd in f.n:
            if nd["k"] == "elem" and nd["ln"].lower() in ("script", "style"):
                keep = []
                for c in nd["c"]:
                    if f.n[c - 1]["k"] in ("text", "attr", "nsn"):
                        keep.append(c)
                    else:
                        f.n[c - 1]["p"] = 0
                # at most one text child (no adjacent text nodes)
                texts = [c for c in keep if f.n[c - 1]["k"] == "text"]
                for c in texts[1:]:
                    keep.remove(c)
                    f.n[c - 1]["p"] = 0
                nd["c"] = keep
        # unique attribute keys may have been broken by renaming: drop duplicates
        for i, nd in enumerate(f.n):
            if nd["k"] == "elem":
                seen = set()
                keep = []
                for c in nd["c"]:
                    ch = f.n[c - 1]
                    if ch["k"] == "attr":
                        key = (ch["ns"], ch["ln"])
                        if key in seen:
                            ch["p"] = 0
                            continue
                        seen.add(key)
                    keep.append(c)
                nd["c"] = keep
        cdsel = rnd.choice(cd_opts)
        if k % 3 == 1:
            # a CDATA-section element that differs from an element of the tree only in letter case or in the choice
            # between no namespace and XHTML: that element did NOT ask for a CDATA section
            withtext = [nd for nd in f.n if nd["k"] == "elem" and any(f.n[c - 1]["k"] == "text" for c in nd["c"]) and nd["ns"] in ("", "http://www.w3.org/1999/xhtml")]
            if withtext:
                nd = rnd.choice(withtext)
                other_ns = "http://www.w3.org/1999/xhtml" if nd["ns"] == "" else ""
                cdsel = [rnd.choice([[nd["ns"], nd["ln"].swapcase()], [other_ns, nd["ln"]], [nd["ns"], nd["ln"].upper() if nd["ln"] != nd["ln"].upper() else nd["ln"].lower()]])]
        jobs.append({"st": f.state(), "root": roots[0], "indent": k % 2 == 0, "suppress": rnd.choice(sup_opts), "cdata": cdsel})
        counts["random"] += 1
    # fragments: a top-level script / style / CDATA-section element and, behind it at the top level, character data with
    # markup characters (how a text node is escaped depends on ITS parent, not on the element written last)
    for k in range(60 if quick else 1500):
        ff = gen.Forest(True)
        top = ff.add(gen.node("doc"))
        if rnd.random() < 0.3:
            ff.add(gen.node("text", t=gen.cps("x&y")), top)
        first = rnd.choice(["script", "style", "STYLE", "pre", "p"])
        e = ff.add(gen.node("elem", ns=rnd.choice(["", "http://www.w3.org/1999/xhtml"]) if first in ("script", "style", "STYLE") else "", ln=first), top)
        ff.add(gen.node("text", t=gen.cps(rnd.choice(["a b", "x", "if (a && b) {}"])) if first in ("script", "style", "STYLE") else gen.cps("q<r")), e)
        if rnd.random() < 0.3:
            ff.add(gen.node("comm", t=gen.cps("c")), top)
        ff.add(gen.node("text", t=gen.cps(rnd.choice(["a < b & c", "<", "&amp;", "1 & 2", "x]]>y<"]))), top)
        if rnd.random() < 0.5:
            ff.add(gen.node("elem", ln="em"), top)
        jobs.append({"st": ff.state(), "root": 1, "indent": k % 3 == 0, "suppress": [], "cdata": [["", first]] if first in ("pre", "p") and k % 2 == 0 else []})
        counts["random"] += 1
    # an outer default namespace, a prefixed SVG / MathML / XHTML element with a declaration of its own (the serialiser writes
    # it unprefixed under a generated default declaration) and, inside it, elements of the OUTER default namespace again:
    # they must not be written as if the generated default applied to them
    for k in range(80 if quick else 2000):
        ff = gen.Forest(True)
        outer = rnd.choice(["u1", "u2"])
        wr = ff.add(gen.node("elem", ns=outer, ln=rnd.choice(["div", "zzz", "p"])))
        ff.add(gen.node("nsn", ln="", u=outer), wr)
        if rnd.random() < 0.6:
            ff.add(gen.node("nsn", ln="o", u=outer), wr)
        inner_ns = rnd.choice(["http://www.w3.org/2000/svg", "http://www.w3.org/1998/Math/MathML", "http://www.w3.org/1999/xhtml", "https://www.w3.org/1999/xhtml"])
        mid = ff.add(gen.node("elem", ns=inner_ns, ln=rnd.choice(["svg", "math", "span", "g"])), wr)
        ff.add(gen.node("nsn", ln=rnd.choice(["s", "q"]), u=inner_ns), mid)
        if rnd.random() < 0.3:
            ff.add(gen.node("nsn", ln="z", u="u3"), mid)
        cur = mid
        for _ in range(rnd.randrange(1, 4)):
            e = ff.add(gen.node("elem", ns=rnd.choice([outer, outer, inner_ns]), ln=rnd.choice(["em", "zzz", "g", "li"])), cur)
            if rnd.random() < 0.4:
                cur = e
        ff.add(gen.node("elem", ns=outer, ln="p"), wr)
        jobs.append({"st": ff.state(), "root": 1, "indent": k % 4 == 0, "suppress": [], "cdata": []})
        counts["random"] += 1
    rnd.shuffle(jobs)
    jp = os.path.join(d, "jobs.ndjson")
    with open(jp, "w") as fh:
        for j in jobs:
            fh.write(json.dumps(j) + "\n")
    op = os.path.join(d, "out.ndjson")
    vlib.run_harness(exe, ["html", "--jobs", jp, "--out", op], timeout=1800 if quick else 7200)
    v = vlib.validate_trace_flat(op, module="TraceHtml.tla", cfg="TraceHtml.cfg", nshards=14, timeout=1800 if quick else 10000, tag="C19")
    violations, known, xnorm = [], {}, 0
    vlib.buildfail(op, prop, violations, known, prop)
    for rj in v["rejects"]:
        if rj["prop"] == "TOOL":
            raise ToolError(f"generated state rejected as input: {rj['detail']}")
        if rj["prop"] == "X-NORM":
            # the normaliser law is behaviour beyond the listed property: noted, never a violation
            xnorm += 1
            if xnorm <= 3:
                ev = json.loads(v["lines"][rj["line"]])
                log(f"  NOTE beyond-property law (HTML5 serialisation with a normaliser) rejected: ntext={''.join(map(chr, ev['ntext']))[:120]!r} {json.dumps(rj['detail'])[:200]}")
            continue
        if rj["known"]:
            known.setdefault(rj["known"], 0)
            known[rj["known"]] += 1
            continue
        if len(violations) < 25:
            ev = json.loads(v["lines"][rj["line"]])
            violations.append(vlib.save_replay(prop, {"kind": "html", "job": {k: ev[k] for k in ("st", "root", "indent", "suppress", "cdata")}}, rj))
            log(f"  reject: root={ev['root']} text={''.join(map(chr, ev['text']))[:160]!r} detail={json.dumps(rj['detail'])[:300]}")
    kf = {f["id"]: f for f in vlib.load_known()}
    known_lines = [f"{kid} ({cnt} events): {kf.get(kid, {}).get('what', '')}" for kid, cnt in sorted(known.items())]
    distinct = len({json.dumps(j["st"]["n"]) + str(j["root"]) for j in jobs})
    cov = {"states": r_g["distinct"] + r_ns["distinct"] + r_lex["distinct"], "transitions": r_g["generated"] + r_ns["generated"] + r_lex["generated"], "traces_validated_against_impl": len(jobs), "evaluations": len(jobs),
           "distinct_nontrivial": distinct,
           "rule": "one event per (forest, node, parameters): html5() serialisation under catch_unwind, output tokenised by an independent HTML tokenizer, rules judged by TLC; distinct = distinct (forest, node) pairs",
           "samples": [{"root": jobs[0]["root"], "indent": jobs[0]["indent"], "first_nodes": jobs[0]["st"]["n"][:4]}], "exhaustive": False, "inputs": counts,
           "normaliser_law": {"events_where_NormF_changes_a_value": sum(1 for j in jobs if any(nd["k"] in ("text", "attr") and any(c in (120, 233, 128512, 121) for c in nd["t"]) for nd in j["st"]["n"])),
                              "rejections_beyond_the_property": xnorm}}
    import shutil
    shutil.rmtree(d, ignore_errors=True)
    return {"violations": violations, "known": known_lines, "coverage": cov,
            "assumptions": ["TLC 1.8 and the Json/IOUtils community modules", "the harness's HTML tokenizer (total; raw-text mode for script/style) and its ASCII lower-casing of local names",
                            "void elements: the HTML5 list; names void only in older HTML versions are not generated"]}


BUILD_CFG = "SPECIFICATION Spec\nCONSTANTS\n  Target = {target}\n  Dump = {dump}\nINVARIANTS Confluent ValidAlways DumpProgram\n{view}CHECK_DEADLOCK FALSE\n"


def forest_to_doc(D):
    """abstract document in xmlgen's shape from a target forest (node 1 = document node)"""
    import xmlgen as X

    def el(i):
        nd = D[i - 1]
        e = {"ns": nd["ns"], "ln": nd["ln"], "decls": [], "attrs": [], "kids": []}
        for c in nd["c"]:
            ch = D[c - 1]
            if ch["k"] == "nsn":
                e["decls"].append((ch["ln"], ch["u"]))
            elif ch["k"] == "attr":
                e["attrs"].append((ch["ns"], ch["ln"], list(ch["t"])))
            else:
                e["kids"].append(item(c))
        return e

    def item(c):
        ch = D[c - 1]
        if ch["k"] == "elem":
            return el(c)
        if ch["k"] == "text":
            return ("text", list(ch["t"]))
        if ch["k"] == "comm":
            return ("comm", list(ch["t"]))
        return ("pi", ch["ln"], list(ch["t"]) if ch["d"] else None)

    before, after, root = [], [], None
    for c in D[0]["c"]:
        if D[c - 1]["k"] == "elem":
            root = el(c)
        elif root is None:
            before.append(item(c))
        else:
            after.append(item(c))
    return {"before": before, "root": root, "after": after}


def random_program(D, rnd):
    """a random valid construction order for target forest D, following the enabling rules of MCBuild"""
    n = len(D)
    made = [0] * (n + 1)
    att = set()
    pieces = {}
    ops = []
    count = 0
    normal = lambda t: D[t - 1]["k"] not in ("attr", "nsn")
    def sibs(t):
        return [c for c in D[D[t - 1]["p"] - 1]["c"] if normal(c)]
    def ev(op, a, nd=None, **kw):
        o = {"op": op, "a": a, "ns": "", "ln": "", "s": [], "px": "", "uri": "", "b": False}
        o.update(kw)
        return o
    while True:
        cands = []
        for t in range(1, n + 1):
            nd = D[t - 1]
            if made[t] == 0 and normal(t):
                cands.append(("create", t, None))
            if made[t] == 0 and not normal(t) and made[nd["p"]]:
                # (each kind in D's order, the two kinds interleaved freely - MCBuild!PrevAbn)
                ab = [c for c in D[nd["p"] - 1]["c"] if not normal(c) and D[c - 1]["k"] == nd["k"]]
                k = ab.index(t)
                if k == 0 or made[ab[k - 1]]:
                    cands.append(("setabn", t, None))
            if normal(t) and nd["p"] and made[t] and made[nd["p"]] and t not in att:
                s = sibs(t)
                k = s.index(t)
                attached = {x for x in s if x in att}
                if attached == set(s[:k]):
                    cands.append(("attach", t, "append"))
                if attached == set(s[k + 1:]):
                    cands.append(("attach", t, "prepend"))
                if k + 1 < len(s) and s[k + 1] in att:
                    cands.append(("attach", t, "insert_before"))
                if k > 0 and s[k - 1] in att:
                    cands.append(("attach", t, "insert_after"))
        for t in list(pieces):
            if t in att:
                cands.append(("piece2", t, None))
        if not cands:
            break
        kind, t, how = rnd.choice(cands)
        nd = D[t - 1]
        if kind == "create":
            count += 1
            made[t] = count
            if nd["k"] == "doc":
                ops.append(ev("new_document", []))
            elif nd["k"] == "elem":
                ops.append(ev("new_element", [], ns=nd["ns"], ln=nd["ln"]))
            elif nd["k"] == "text":
                if len(nd["t"]) >= 2 and rnd.random() < 0.35:
                    # the text is built in two pieces: the second one is put next to the first later on and merges into it
                    cut = rnd.randrange(1, len(nd["t"]))
                    ops.append(ev("new_text", [], s=list(nd["t"][:cut])))
                    pieces[t] = list(nd["t"][cut:])
                else:
                    ops.append(ev("new_text", [], s=list(nd["t"])))
            elif nd["k"] == "comm":
                ops.append(ev("new_comment", [], s=list(nd["t"])))
            else:
                ops.append(ev("new_pi", [], ln=nd["ln"], s=list(nd["t"]), b=bool(nd["d"])))
        elif kind == "piece2":
            # the rest of a text node: a new text node placed directly behind the first piece (which absorbs it), either
            # after that piece or before the nearest sibling already attached behind it
            count += 1
            ops.append(ev("new_text", [], s=pieces.pop(t)))
            s = sibs(t)
            k = s.index(t)
            later = [x for x in s[k + 1:] if x in att]
            if later and rnd.random() < 0.5:
                ops.append(ev("insert_before", [made[later[0]], count]))
            elif not later and rnd.random() < 0.4:
                ops.append(ev("append", [made[nd["p"]], count]))
            else:
                ops.append(ev("insert_after", [made[t], count]))
        elif kind == "setabn":
            count += 1
            made[t] = count
            # map-style update, or a node created on its own and then appended ("creation and append calls")
            style = rnd.choice(["set", "set", "node", "any"])
            if nd["k"] == "attr":
                if style == "set":
                    ops.append(ev("set_attribute", [made[nd["p"]]], ns=nd["ns"], ln=nd["ln"], s=list(nd["t"])))
                else:
                    ops.append(ev("new_attribute_node", [], ns=nd["ns"], ln=nd["ln"], s=list(nd["t"])))
                    ops.append(ev("append_attribute_node" if style == "node" else "any_append", [made[nd["p"]], made[t]]))
            else:
                if style == "set":
                    ops.append(ev("set_namespace", [made[nd["p"]]], px=nd["ln"], uri=nd["u"]))
                else:
                    ops.append(ev("new_namespace_node", [], px=nd["ln"], uri=nd["u"]))
                    ops.append(ev("append_namespace_node" if style == "node" else "any_append", [made[nd["p"]], made[t]]))
        else:
            s = sibs(t)
            k = s.index(t)
            if how in ("append", "prepend"):
                a = [made[nd["p"]], made[t]]
            elif how == "insert_before":
                a = [made[s[k + 1]], made[t]]
            else:
                a = [made[s[k - 1]], made[t]]
            ops.append(ev(how, a))
            att.add(t)
    return ops, made[1]


def build_check(prop, tier, seed):
    """C20: the same document built three ways."""
    import xmlgen as X
    import gen
    quick = tier == "quick"
    exe = vlib.build_harness()
    d = vlib.workdir("build")
    rnd = random.Random(seed)
    mcs = []
    jobs = []
    counts = {"tlc_programs": 0, "random_programs": 0}
    for target in ([2, 3, 4, 5] if quick else [2, 3, 4, 5, 1]):
        progs, r = dump_states("MCBuild.tla", BUILD_CFG.format(target=target, dump="TRUE", view="VIEW Progress\n"), f"C20_build{target}", workers=12)
        mcs.append(r)
        rnd.shuffle(progs)
        for p in progs[: (400 if quick else 8000)]:
            D = p["target"]
            doc = forest_to_doc(D)
            toks = X.render_doc(doc, X.CanonChooser(rnd, set()), "doc")
            jobs.append({"target": D, "ops": p["ops"], "root": p["root"], "text": X.text_of(toks)})
            counts["tlc_programs"] += 1
    if not quick:
        # confluence over ALL behaviours (no VIEW) for the 6-node targets
        for target in (3, 4):
            cfgname = write_cfg(f"gen_C20_all{target}.cfg", BUILD_CFG.format(target=target, dump="FALSE", view=""))
            mcs.append(mc("MCBuild.tla", cfgname, workers=12, timeout=3000, tag=f"C20_all{target}", xmx="16g"))
            os.remove(os.path.join(vlib.SPEC, cfgname))
    # random documents with random valid construction orders
    nrand = 300 if quick else 10000
    sx = X.scope_exit_docs()
    for k in range(nrand + (len(sx) if quick else 6 * len(sx))):
        if k < nrand:
            doc = X.rand_doc(rnd, size=rnd.choice([4, 8, 14, 25]), depth=rnd.choice([1, 2, 3, 4]), rich=(k % 2 == 0))
        else:
            # bindings made on an inner element must be gone again behind it (each document in several spellings)
            doc = json.loads(json.dumps(sx[(k - nrand) % len(sx)]))
            doc = retuple(doc)
        # as a target forest
        f = gen.Forest()
        droot = f.add(gen.node("doc"))

        def add_item(it, parent):
            if isinstance(it, dict):
                e = f.add(gen.node("elem", ns=it["ns"], ln=it["ln"]), parent)
                for px, uri in it["decls"]:
                    f.add(gen.node("nsn", ln=px, u=uri), e)
                for ans, aln, av in it["attrs"]:
                    f.add(gen.node("attr", ns=ans, ln=aln, t=av), e)
                for kid in it["kids"]:
                    add_item(kid, e)
            elif it[0] == "text":
                f.add(gen.node("text", t=it[1]), parent)
            elif it[0] == "comm":
                f.add(gen.node("comm", t=it[1]), parent)
            else:
                f.add(gen.node("pi", ln=it[1], t=it[2] or [], d=it[2] is not None), parent)

        for it in doc["before"]:
            add_item(it, droot)
        add_item(doc["root"], droot)
        for it in doc["after"]:
            add_item(it, droot)
        D = f.n
        # xml:id values are normalised by the parser: keep them in normal form so that the three routes agree
        ops, root = random_program(D, rnd)
        try:
            toks = X.render_doc(doc, X.RandomChooser(rnd), "doc")
        except ValueError:
            continue
        jobs.append({"target": D, "ops": ops, "root": root, "text": X.text_of(toks)})
        counts["random_programs"] += 1
    rnd.shuffle(jobs)
    jp = os.path.join(d, "jobs.ndjson")
    with open(jp, "w") as fh:
        for j in jobs:
            fh.write(json.dumps(j) + "\n")
    op = os.path.join(d, "out.ndjson")
    vlib.run_harness(exe, ["build", "--jobs", jp, "--out", op], timeout=1800 if quick else 7200)
    v = vlib.validate_trace_flat(op, module="TraceBuild.tla", cfg="TraceBuild.cfg", nshards=14, timeout=1800 if quick else 10000, tag="C20")
    violations, known = [], {}
    for rj in v["rejects"]:
        if rj["prop"] == "TOOL":
            raise ToolError(f"generated target rejected as input: {rj['detail']}")
        if len(violations) < 25:
            ev = json.loads(v["lines"][rj["line"]])
            violations.append(vlib.save_replay(prop, {"kind": "build", "job": {k: ev[k] for k in ("target", "ops", "root", "text")}}, rj))
            log(f"  reject: text={''.join(map(chr, ev['text']))[:160]!r} detail={json.dumps(rj['detail'])[:300]}")
    distinct = len({json.dumps(j["ops"]) for j in jobs})
    cov = {"states": sum(r["distinct"] for r in mcs), "transitions": sum(r["generated"] for r in mcs),
           "traces_validated_against_impl": len(jobs), "evaluations": 3 * len(jobs), "distinct_nontrivial": distinct,
           "rule": "one event per (target document, construction program): the program is executed on the real crate, the target is also built by fixed::Document::xotify and by parsing a rendering; TLC compares the three trees with the target and the three serialisations with each other; distinct = distinct programs",
           "samples": [{"ops": [o["op"] for o in jobs[0]["ops"]], "text": "".join(map(chr, jobs[0]["text"]))[:200]}], "exhaustive": False, "inputs": counts}
    import shutil
    shutil.rmtree(d, ignore_errors=True)
    return {"violations": violations, "known": [], "coverage": cov,
            "assumptions": ["TLC 1.8 and the Json/IOUtils community modules", "with the VIEW TLC prints one program per distinct (forest, progress) state, i.e. every creation order with one attachment order each; all interleavings are checked for confluence in the specification (thorough tier) but not all are replayed",
                            "the rendering for the parse route is produced by the Python renderer (checked against XotParse by C02)"]}


CHECKS = {
    "C04": forest_check,
    "C05": forest_check,
    "C06": forest_check,
    "C10": forest_check,
    "C11": forest_check,
    "C12": forest_check,
    "C15": forest_check,
    "C18": forest_check,
    "C19": html_check,
    "C20": build_check,
    "C01": ser_check,
    "C14": ser_check,
    "C16": ser_check,
    "C02": parser_check,
    "C03": parser_check,
    "C17": parser_check,
    "C07": observer_check,
    "C08": intern_check,
    "C09": observer_check,
    "C13": observer_check,
}


def replay(prop, path):
    """Re-execute one saved scenario against the current /repo and re-validate it with TLC."""
    exe = vlib.build_harness()
    blob = json.load(open(path))
    sc = blob["scenario"]
    kind = sc.get("kind", "forest")
    d = vlib.workdir("replay")
    out = os.path.join(d, "trace.ndjson")
    flat = True
    if kind == "forest":
        sp = os.path.join(d, "scenario.json")
        json.dump(sc, open(sp, "w"))
        vlib.run_harness(exe, ["forest-exec", "--scenario", sp, "--out", out])
        v = vlib.validate_trace(out, nshards=1, tag="replay")
        flat = False
    elif kind == "churn":
        vlib.run_harness(exe, ["churn", "--cycles", str(sc.get("cycles", 33000)), "--out", out], timeout=1800)
        v = vlib.validate_trace_flat(out, module="TraceArena.tla", cfg="TraceArena.cfg", nshards=1, tag="replay")
    elif kind == "intern":
        log("interning scenarios are re-driven from their seed: VERIF_SEED=%s ./check C08" % sc.get("seed"))
        res = CHECKS["C08"]("C08", "quick", int(sc.get("seed", 1)))
        for vv in res["violations"]:
            log(f"VIOLATION property=C08 replay={path}")
        if not res["violations"]:
            log(f"replay of {path}: no unlisted violation of C08")
        return 1 if res["violations"] else 0
    else:
        sub, module = {"observe": ("observe", "TraceTree"), "parse": ("parse", "TraceParse"), "ser": ("ser", "TraceSer"),
                       "html": ("html", "TraceHtml"), "build": ("build", "TraceBuild")}[kind]
        jp = os.path.join(d, "job.ndjson")
        with open(jp, "w") as f:
            # (a key the job did not have is stored as null in the scenario; TLC's Json module cannot read null)
            f.write(json.dumps({k: val for k, val in sc["job"].items() if val is not None}) + "\n")
        vlib.run_harness(exe, [sub, "--jobs", jp, "--out", out])
        v = vlib.validate_trace_flat(out, module=module + ".tla", cfg=module + ".cfg", nshards=1, tag="replay")
    bad = [r for r in v["rejects"] if r["prop"] == prop and not r["known"]]
    for r in v["rejects"]:
        log(f"  reject: prop={r['prop']} {r['op']} known={r['known']!r} detail={json.dumps(r['detail'])[:400]}")
    if not flat:
        for l in v["lines"][1:]:
            ev = json.loads(l)
            log(f"  observed: {ev['op']} a={ev['a']} -> {ev['res']} ret={ev['ret']}")
    if bad:
        log(f"VIOLATION property={prop} replay={path}")
        return 1
    log(f"replay of {path}: no unlisted violation of {prop}")
    return 0
