------------------------------ MODULE XotKnown ------------------------------
(***************************************************************************)
(* Named deviations: signatures of the genuine defects of the pinned xot   *)
(* that are recorded in /verif/known_findings.json with status "open".     *)
(* KnownId(prop, e, N, cons, detail) returns the id of the finding whose   *)
(* signature (operation, shape of the arguments relative to the pre-state, *)
(* result) the rejected event matches, or "" - in which case the rejection *)
(* is a VIOLATION.  A signature only takes effect while its id is listed   *)
(* as open (TraceForest!OpenKnown); "fixed" entries suppress nothing.      *)
(***************************************************************************)
EXTENDS XotForest

KnownId(prop, e, N, cons, detail) == ""

\* parser engine: e = the event (input + runs), entry = the entry point, detail = the rejection
KnownParse(prop, e, entry, detail) == ""

=============================================================================
