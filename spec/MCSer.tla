------------------------------- MODULE MCSer -------------------------------
(***************************************************************************)
(* Bounded-exhaustive generator of XML-representable documents for the     *)
(* serialiser checks (C01, C14, C16): <a b="V">T</a> for ALL strings V, T  *)
(* of length <= MaxLen over the class alphabet, plus the variants with a   *)
(* comment / PI / nested element around the text.  TLC checks on each that *)
(* it is inside the representable domain as XotSerial defines it (so the   *)
(* domain predicate is not vacuous) and prints it as a JSON forest.        *)
(***************************************************************************)
EXTENDS XotRender, TLC, Json

CONSTANTS MaxLen, AttrMaxLen, Alphabet, Dump

RECURSIVE Strs(_)
Strs(n) == IF n = 0 THEN {<<>>} ELSE Strs(n - 1) \cup {Append(s, c) : s \in {t \in Strs(n - 1) : Len(t) = n - 1}, c \in Alphabet}

Nd(k, p, c, ns, ln, t) == [k |-> k, p |-> p, c |-> c, ns |-> ns, ln |-> ln, t |-> t, u |-> "", d |-> FALSE]

\* shape 1: doc / a[@b=V] / text T       shape 2: doc / a / (b[@b=V], text T, comment)
Mk(shape, V, T) ==
    IF shape = 1 THEN
        IF T = <<>> THEN <<Nd("doc", 0, <<2>>, "", "", <<>>), Nd("elem", 1, <<3>>, "", "a", <<>>), Nd("attr", 2, <<>>, "", "b", V)>>
        ELSE <<Nd("doc", 0, <<2>>, "", "", <<>>), Nd("elem", 1, <<3, 4>>, "", "a", <<>>), Nd("attr", 2, <<>>, "", "b", V), Nd("text", 2, <<>>, "", "", T)>>
    ELSE
        IF T = <<>> THEN <<Nd("doc", 0, <<2>>, "", "", <<>>), Nd("elem", 1, <<3, 5>>, "", "a", <<>>), Nd("elem", 2, <<4>>, "", "b", <<>>),
                           Nd("attr", 3, <<>>, "", "b", V), Nd("comm", 2, <<>>, "", "", <<120>>)>>
        ELSE <<Nd("doc", 0, <<2>>, "", "", <<>>), Nd("elem", 1, <<3, 5, 6>>, "", "a", <<>>), Nd("elem", 2, <<4>>, "", "b", <<>>),
               Nd("attr", 3, <<>>, "", "b", V), Nd("text", 2, <<>>, "", "", T), Nd("comm", 2, <<>>, "", "", <<120>>)>>

VARIABLES F, outer
vars == <<F, outer>>
\* two steps so that TLC's workers share the documents: the initial states fix the shape and the attribute value (forest
\* still empty), one step adds the character data
Blank == [n |-> <<>>, cons |-> TRUE, eo |-> FALSE]
Init == F = Blank /\ outer \in [shape : {1, 2}, V : Strs(AttrMaxLen)]
Next == /\ F = Blank
        /\ outer' = outer
        /\ \E T \in Strs(MaxLen) : F' = [n |-> Mk(outer.shape, outer.V, T), cons |-> TRUE, eo |-> FALSE]
Spec == Init /\ [][Next]_vars

InDomainAlways == F = Blank \/ (StructValidCore(F.n) /\ Representable(F.n, 1) /\ Usable(F.n, 1))
\* the round trip inside the specification (XotRender): escaping, line ends, character references
RT == \A x \in ElemsAndDocs(F.n) : RoundTripOk(F.n, x)
DumpState == Dump /\ F # Blank => PrintT("STATE " \o ToJson(F))
=============================================================================
