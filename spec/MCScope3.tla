------------------------------ MODULE MCScope3 ------------------------------
(***************************************************************************)
(* Three-level declaration layouts  a / b / c[@attr]  over one namespace   *)
(* bound as default and / or under a prefix at each level (default may     *)
(* also be undeclared with xmlns=""): the same namespace redeclared down a *)
(* path, default declarations interleaved with prefixed ones, an attribute *)
(* that needs a prefixed binding while default bindings cover the          *)
(* elements (C15, C10, C09), optionally followed by a sibling s of c.  TLC  *)
(* checks on every layout that the                                         *)
(* scope definitions agree and prints the forest.                          *)
(***************************************************************************)
EXTENDS XotRender, TLC, Json
CONSTANT Dump
E(ns, ln, p, c) == [k |-> "elem", p |-> p, c |-> c, ns |-> ns, ln |-> ln, t |-> <<>>, u |-> "", d |-> FALSE]
NSN(px, u, p) == [k |-> "nsn", p |-> p, c |-> <<>>, ns |-> "", ln |-> px, t |-> <<>>, u |-> u, d |-> FALSE]
AT(ns, ln, p) == [k |-> "attr", p |-> p, c |-> <<>>, ns |-> ns, ln |-> ln, t |-> <<118>>, u |-> "", d |-> FALSE]
Decls(d0, dp) == (IF d0 = "-" THEN <<>> ELSE <<<<"", d0>>>>) \o (IF dp = "-" THEN <<>> ELSE <<<<"p", dp>>>>)
Add(N, parent, nd) == [Append(N, [nd EXCEPT !.p = parent]) EXCEPT ![parent].c = Append(@, Len(N) + 1)]
RECURSIVE AddDeclNodes(_, _, _, _)
AddDeclNodes(N, e, D, j) == IF j > Len(D) THEN N ELSE AddDeclNodes(Add(N, e, NSN(D[j][1], D[j][2], 0)), e, D, j + 1)
Mk(n1, D1, n2, D2, n3, D3, an, sn) ==
    LET N1 == AddDeclNodes(<<E(n1, "a", 0, <<>>)>>, 1, D1, 1)
        b == Len(N1) + 1
        N2 == AddDeclNodes(Add(N1, 1, E(n2, "b", 0, <<>>)), b, D2, 1)
        c == Len(N2) + 1
        N3 == AddDeclNodes(Add(N2, b, E(n3, "c", 0, <<>>)), c, D3, 1)
        N4 == Add(N3, c, AT(an, "x", 0))
    \* a sibling after the childless, declaration-carrying c: names written after an empty element's end tag
    IN IF sn = "-" THEN N4 ELSE Add(N4, b, E(sn, "s", 0, <<>>))
VARIABLES F, outer
vars == <<F, outer>>
Blank == [n |-> <<>>, cons |-> TRUE, eo |-> FALSE]
\* two steps so that TLC's workers share the layouts (see MCScope)
Init == /\ F = Blank
        /\ outer \in [a0 : {"-", "u1", ""}, ap : {"-", "u1"}, b0 : {"-", "u1", ""}, bp : {"-", "u1"}, n1 : {"", "u1"}]
Next == /\ F = Blank
        /\ outer' = outer
        /\ \E c0 \in {"-", "u1", ""}, cp \in {"-", "u1"}, n2 \in {"", "u1"}, n3 \in {"", "u1"}, an \in {"", "u1"}, sn \in {"-", "", "u1"} :
             F' = [n |-> Mk(outer.n1, Decls(outer.a0, outer.ap), n2, Decls(outer.b0, outer.bp), n3, Decls(c0, cp), an, sn), cons |-> TRUE, eo |-> FALSE]
Spec == Init /\ [][Next]_vars
ValidLayout == StructValidCore(F.n)
ResolutionIsFunction == \A x \in Live(F.n) : \A p \in {"", "p", "xml"} : Cardinality(NsForPrefix(F.n, x, p)) <= 1
NsUniverse == {"u1", XmlNs}
L2Scope == L2ScopeRefines(F.n) /\ L2PrefixForRefines(F.n, NsUniverse) /\ L2StackBalanced(F.n)
L2Ser == L2SerRefines(F.n)
L2Unres == L2UnresolvedRefines(F.n)
L2CmpInv == L2CmpRefines(F.n)
L2DedupInv == L2DedupRefines(F.n)
\* the round trip inside the specification (XotRender)
RT == \A x \in ElemsAndDocs(F.n) : RoundTripOk(F.n, x)
DumpState == Dump /\ F # Blank => PrintT("STATE " \o ToJson(F))
=============================================================================
