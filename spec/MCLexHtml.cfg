SPECIFICATION Spec
CONSTANTS
  MaxLen = 5
  Alphabet = {120, 38, 60, 62, 34, 39, 160, 123, 59, 35}
INVARIANTS HtmlTextOk HtmlAttrOk
CHECK_DEADLOCK FALSE
