---------------------------- MODULE XotForestL2 ----------------------------
(***************************************************************************)
(* L2: the tree surgery of src/manipulation.rs transcribed the way it is   *)
(* written - structure check, early return, detach with consolidation at   *)
(* the old place, consolidation at the new place, raw arena link - over    *)
(* the raw arena primitives of indextree (detach, append, prepend,         *)
(* insert_before / insert_after, remove = splice the children in place,    *)
(* remove_subtree).  MCForest compares every L2 outcome with the set L1    *)
(* allows (L2MovesRefine) on every reachable forest.  L2 is a bug finder   *)
(* and a description of the mechanism; L1 stays the arbiter.               *)
(***************************************************************************)
EXTENDS XotTree

L2Out(res, n, ret) == [res |-> res, n |-> n, ret |-> ret]

-----------------------------------------------------------------------------
(* indextree primitives on the raw child lists                              *)

PutAt(s, k, x) == SubSeq(s, 1, k - 1) \o <<x>> \o SubSeq(s, k, Len(s))      \* x becomes s[k]
RawAppend(N, q, x) == LET D == DetachRaw(N, x) IN [D EXCEPT ![q].c = Append(@, x), ![x].p = q]
RawPrepend(N, q, x) == LET D == DetachRaw(N, x) IN [D EXCEPT ![q].c = <<x>> \o @, ![x].p = q]
RawInsertAfter(N, r, x) ==
    LET D == DetachRaw(N, x)  q == D[r].p IN [D EXCEPT ![q].c = PutAt(@, Pos(@, r) + 1, x), ![x].p = q]
RawInsertBefore(N, r, x) ==
    LET D == DetachRaw(N, x)  q == D[r].p IN [D EXCEPT ![q].c = PutAt(@, Pos(@, r), x), ![x].p = q]
RawRemoveSubtree(N, x) == FreeSet(N, Subtree(N, x))
\* NodeId::remove: the node goes, its children take its place (or become parentless)
RawRemoveSplice(N, x) ==
    LET q == N[x].p  kids == N[x].c
        M == [i \in 1..Len(N) |->
                IF i = x THEN RM
                ELSE IF Has(kids, i) THEN [N[i] EXCEPT !.p = q]
                ELSE IF i = q THEN [N[i] EXCEPT !.c = LET k == Pos(@, x) IN SubSeq(@, 1, k - 1) \o kids \o SubSeq(@, k + 1, Len(@))]
                ELSE N[i]]
    IN M

IsRemoved(N, x) == N[x].k = "rm"

-----------------------------------------------------------------------------
(* text consolidation helpers                                               *)

\* add_consolidate_text_nodes(node, prev, next): node is a detached text node about to be linked between prev and next
AddConsolidate(N, cons, node, prev, next) ==
    IF ~cons \/ N[node].k # "text" THEN [n |-> N, done |-> FALSE]
    ELSE IF prev # 0 /\ N[prev].k = "text"
         THEN [n |-> RawRemoveSplice([N EXCEPT ![prev].t = @ \o N[node].t], node), done |-> TRUE]
    ELSE IF next # 0 /\ N[next].k = "text"
         THEN [n |-> RawRemoveSplice([N EXCEPT ![next].t = N[node].t \o @], node), done |-> TRUE]
    ELSE [n |-> N, done |-> FALSE]

\* remove_consolidate_text_nodes(prev, next): next is merged into prev if both are text
RemoveConsolidate(N, cons, prev, next) ==
    IF cons /\ prev # 0 /\ next # 0 /\ N[prev].k = "text" /\ N[next].k = "text"
    THEN [n |-> RawRemoveSplice([N EXCEPT ![prev].t = @ \o N[next].t], next), done |-> TRUE]
    ELSE [n |-> N, done |-> FALSE]

-----------------------------------------------------------------------------
(* checks                                                                   *)

StructCheck(N, q, x) ==
    /\ q # 0
    /\ N[q].k \in {"elem", "doc"}
    /\ x \notin AncOrSelf(N, q)
    /\ N[x].k \notin {"doc", "attr", "nsn"}
SibCheck(N, r, x) == IsNormal(N, r) /\ StructCheck(N, N[r].p, x)

-----------------------------------------------------------------------------
(* the public calls                                                         *)

L2Detach(N, cons, x) ==
    LET prev == PrevSib(N, x)  next == NextSib(N, x) IN RemoveConsolidate(DetachRaw(N, x), cons, prev, next).n

L2Remove(N, cons, x) ==
    LET prev == PrevSib(N, x)  next == NextSib(N, x) IN RemoveConsolidate(RawRemoveSubtree(N, x), cons, prev, next).n

L2Append(N, cons, q, x) ==
    IF ~StructCheck(N, q, x) THEN L2Out("err", N, 0)
    ELSE IF LastChild(N, q) = x THEN L2Out("ok", N, 0)
    ELSE LET D == L2Detach(N, cons, x)
             a == AddConsolidate(D, cons, x, LastChild(D, q), 0)
         IN IF a.done THEN L2Out("ok", a.n, 0) ELSE L2Out("ok", RawAppend(D, q, x), 0)

L2Prepend(N, cons, q, x) ==
    IF ~StructCheck(N, q, x) THEN L2Out("err", N, 0)
    ELSE IF FirstChild(N, q) = x THEN L2Out("ok", N, 0)
    ELSE LET D == L2Detach(N, cons, x)
             a == AddConsolidate(D, cons, x, 0, FirstChild(D, q))
             abn == AbnKids(D, q)
         IN IF a.done THEN L2Out("ok", a.n, 0)
            ELSE IF abn # <<>> THEN L2Out("ok", RawInsertAfter(D, abn[Len(abn)], x), 0)
            ELSE L2Out("ok", RawPrepend(D, q, x), 0)

L2InsertAfter(N, cons, r, x) ==
    IF ~SibCheck(N, r, x) THEN L2Out("err", N, 0)
    ELSE IF r = x \/ NextSib(N, r) = x THEN L2Out("ok", N, 0)
    ELSE LET pm == PrevSib(N, x)
             D == L2Detach(N, cons, x)
         IN IF IsRemoved(D, r) /\ pm = 0 THEN L2Out("panic", N, 0)        \* previous_of_moved.unwrap()
            ELSE LET r2 == IF IsRemoved(D, r) THEN pm ELSE r
                     a == AddConsolidate(D, cons, x, r2, NextSib(D, r2))
                 IN IF a.done THEN L2Out("ok", a.n, 0) ELSE L2Out("ok", RawInsertAfter(D, r2, x), 0)

L2InsertBefore(N, cons, r, x) ==
    IF ~SibCheck(N, r, x) THEN L2Out("err", N, 0)
    ELSE IF r = x \/ PrevSib(N, r) = x THEN L2Out("ok", N, 0)
    ELSE LET D == L2Detach(N, cons, x) IN
         IF IsRemoved(D, r) THEN L2Out("panic", N, 0)                          \* would touch a removed node
         ELSE LET a == AddConsolidate(D, cons, x, PrevSib(D, r), r)
              IN IF a.done THEN L2Out("ok", a.n, 0) ELSE L2Out("ok", RawInsertBefore(D, r, x), 0)

L2Replace(N, cons, o, x) ==
    IF N[o].k = "doc" THEN L2Out("err", N, 0)
    ELSE IF o = x THEN L2Out("ok", N, 0)
    ELSE IF ~SibCheck(N, o, x) THEN L2Out("err", N, 0)
    ELSE LET op == PrevSib(N, x)  on == NextSib(N, x)
             M1 == RawRemoveSubtree(RawInsertBefore(N, o, x), o)
             M2 == IF op # 0 /\ on # 0 /\ ~IsRemoved(M1, op) /\ ~IsRemoved(M1, on) /\ NextSib(M1, op) = on
                   THEN RemoveConsolidate(M1, cons, op, on).n ELSE M1
         IN IF IsRemoved(M2, x) THEN L2Out("panic", N, 0)
            ELSE LET pn == PrevSib(M2, x)  nn == NextSib(M2, x)
                     c1 == RemoveConsolidate(M2, cons, pn, x)
                 IN IF c1.done THEN L2Out("ok", RemoveConsolidate(c1.n, cons, pn, nn).n, 0)
                    ELSE L2Out("ok", RemoveConsolidate(M2, cons, x, nn).n, 0)

RECURSIVE FreeSeq(_, _, _)
FreeSeq(N, s, j) == IF j > Len(s) THEN N ELSE FreeSeq(RawRemoveSplice(N, s[j]), s, j + 1)

L2Unwrap(N, cons, e) ==
    IF N[e].k # "elem" THEN L2Out("err", N, 0)
    ELSE LET fc == FirstChild(N, e) IN
         IF fc = 0 THEN L2Out("ok", L2Remove(N, cons, e), 0)
         ELSE LET lc == LastChild(N, e) IN
              IF N[e].p = 0 /\ fc # lc THEN L2Out("err", N, 0)
              ELSE LET M == RawRemoveSplice(FreeSeq(N, AbnKids(N, e), 1), e)
                       pn == PrevSib(M, fc)  nn == NextSib(M, lc)
                       c1 == RemoveConsolidate(M, cons, pn, fc)
                   IN IF c1.done
                      THEN IF fc = lc THEN L2Out("ok", RemoveConsolidate(c1.n, cons, pn, nn).n, 0)
                           ELSE L2Out("ok", RemoveConsolidate(c1.n, cons, lc, NextSib(c1.n, lc)).n, 0)
                      ELSE L2Out("ok", RemoveConsolidate(M, cons, lc, NextSib(M, lc)).n, 0)

L2Wrap(N, cons, x, ns, ln) ==
    IF N[x].k = "doc" \/ ~IsNormal(N, x) THEN L2Out("err", N, 0)
    ELSE IF N[x].p # 0 /\ N[N[x].p].k = "doc" /\ N[x].k # "elem" THEN L2Out("err", N, 0)
    ELSE LET w == Len(N) + 1
             N1 == Append(N, [k |-> "elem", p |-> 0, c |-> <<>>, ns |-> ns, ln |-> ln, t |-> <<>>, u |-> "", d |-> FALSE])
         IN IF N[x].p # 0 THEN
                LET q == N[x].p
                    pv == PrevSib(N, x)
                    D == DetachRaw(N1, x)
                    a == L2Append(D, cons, w, x)
                    b == IF pv # 0 THEN L2InsertAfter(a.n, cons, pv, w) ELSE L2Prepend(a.n, cons, q, w)
                IN IF a.res # "ok" \/ b.res # "ok" THEN L2Out("err", b.n, 0) ELSE L2Out("ok", b.n, w)
            ELSE LET a == L2Append(N1, cons, w, x) IN L2Out(a.res, a.n, IF a.res = "ok" THEN w ELSE 0)

-----------------------------------------------------------------------------
(* remove_insignificant_whitespace (src/unpretty.rs): collect, then take    *)
(* each text node out with the raw arena removal.  (The pinned code used    *)
(* the public, consolidating remove: with RawRemoveSplice replaced by       *)
(* L2Remove below, TLC reports L2MovesRefine violated at MaxNode = 4 - three *)
(* adjacent whitespace text nodes, consolidation switched on again, the     *)
(* call made on the middle one: its neighbours are merged.  Repaired.)      *)

L2IsWs(t) == \A j \in 1..Len(t) : t[j] \in {32, 9, 13, 10}
L2SignificantText(N, i) == N[i].k = "text" /\ ~L2IsWs(N[i].t)
RECURSIVE L2InPreserve(_, _, _)
L2InPreserve(N, i, fuel) ==                                  \* nearest xml:space on an ancestor-or-self decides
    LET hits == IF N[i].k = "elem" THEN {a \in SeqRange(AttrKids(N, i)) : N[a].ns = XmlNs /\ N[a].ln = "space"} ELSE {} IN
    IF hits # {} THEN N[CHOOSE a \in hits : TRUE].t = PreserveCps
    ELSE IF fuel = 0 \/ N[i].p = 0 THEN FALSE ELSE L2InPreserve(N, N[i].p, fuel - 1)
L2Insignificant(N, i) ==
    /\ N[i].k = "text"
    /\ ~L2InPreserve(N, i, Len(N))
    /\ L2IsWs(N[i].t)
    /\ LET pv == PrevSib(N, i) IN pv = 0 \/ ~\E s \in SeqRange(PrecedingSiblings(N, pv)) : L2SignificantText(N, s)
    /\ LET nx == NextSib(N, i) IN nx = 0 \/ ~\E s \in SeqRange(FollowingSiblings(N, nx)) : L2SignificantText(N, s)
RECURSIVE L2RemoveAll(_, _, _, _)
L2RemoveAll(N, cons, s, j) == IF j > Len(s) THEN N ELSE L2RemoveAll(RawRemoveSplice(N, s[j]), cons, s, j + 1)
L2Riw(N, cons, x) == L2RemoveAll(N, cons, SelectSeq(Descendants(N, x), LAMBDA y : L2Insignificant(N, y)), 1)

-----------------------------------------------------------------------------
(* src/nodemap: the attribute and namespace views are runs of the element's *)
(* raw child list (take_while namespace; skip_while namespace, take_while   *)
(* attribute); a new entry is linked after the adapter's insertion point    *)

RECURSIVE TakeWhileK(_, _, _, _)
TakeWhileK(N, c, j, kind) == IF j > Len(c) \/ N[c[j]].k # kind THEN <<>> ELSE <<c[j]>> \o TakeWhileK(N, c, j + 1, kind)
L2MapChildren(N, e, which) ==
    LET c == N[e].c  nsrun == TakeWhileK(N, c, 1, "nsn") IN
    IF which = "nsn" THEN nsrun ELSE TakeWhileK(N, c, Len(nsrun) + 1, "attr")
L2InsertionPoint(N, e, which) ==
    LET own == L2MapChildren(N, e, which) IN
    IF own # <<>> THEN own[Len(own)]
    ELSE IF which = "attr" THEN (LET ns == TakeWhileK(N, N[e].c, 1, "nsn") IN IF ns # <<>> THEN ns[Len(ns)] ELSE 0)
    ELSE 0
L2KeyOf(N, i) == IF N[i].k = "attr" THEN <<N[i].ns, N[i].ln>> ELSE <<"", N[i].ln>>
L2GetNode(N, e, which, key) ==
    LET own == L2MapChildren(N, e, which)
        hits == {j \in 1..Len(own) : L2KeyOf(N, own[j]) = key}
    IN IF hits = {} THEN 0 ELSE own[CHOOSE j \in hits : \A q \in hits : j <= q]        \* find: the first
L2Link(N, e, which, x) ==
    LET ip == L2InsertionPoint(N, e, which) IN
    IF ip # 0 THEN RawInsertAfter(N, ip, x) ELSE RawPrepend(N, e, x)
\* MutableNodeMap::insert
L2MapInsert(N, e, which, key, t, u) ==
    LET hit == L2GetNode(N, e, which, key) IN
    IF hit # 0 THEN (IF which = "attr" THEN [N EXCEPT ![hit].t = t] ELSE [N EXCEPT ![hit].u = u])
    ELSE LET nd == IF which = "attr" THEN [k |-> "attr", p |-> 0, c |-> <<>>, ns |-> key[1], ln |-> key[2], t |-> t, u |-> "", d |-> FALSE]
                   ELSE [k |-> "nsn", p |-> 0, c |-> <<>>, ns |-> "", ln |-> key[2], t |-> <<>>, u |-> u, d |-> FALSE]
         IN L2Link(Append(N, nd), e, which, Len(N) + 1)
\* MutableNodeMap::remove (through the public, consolidating Xot::remove)
L2MapRemove(N, cons, e, which, key) ==
    LET hit == L2GetNode(N, e, which, key) IN IF hit = 0 THEN N ELSE L2Remove(N, cons, hit)
\* MutableNodeMap::insert_node behind append_attribute_node / append_namespace_node
L2AppendMapNode(N, e, x, which) ==
    IF N[e].k # "elem" \/ N[x].k # which THEN L2Out("err", N, 0)
    ELSE LET hit == L2GetNode(N, e, which, L2KeyOf(N, x)) IN
         IF hit # 0 THEN L2Out("ok", IF which = "attr" THEN [N EXCEPT ![hit].t = N[x].t] ELSE [N EXCEPT ![hit].u = N[x].u], hit)
         ELSE L2Out("ok", L2Link(N, e, which, x), x)

-----------------------------------------------------------------------------
(* clone_node: replay of the all_traverse edges of the source under a       *)
(* temporary top (a dummy element with the same name, or the new document)  *)
(* with any_append - so text is consolidated as it is appended - and the    *)
(* temporary element spliced out at the end; clone_with_prefixes then       *)
(* inserts the inherited prefixes the clone's element does not declare      *)

CopyOf(nd) == [nd EXCEPT !.p = 0, !.c = <<>>]
L2AnyAppend(N, cons, q, y) ==
    IF N[y].k = "nsn" THEN L2AppendMapNode(N, q, y, "nsn")
    ELSE IF N[y].k = "attr" THEN L2AppendMapNode(N, q, y, "attr")
    ELSE L2Append(N, cons, q, y)
RECURSIVE CloneRun(_, _, _, _, _, _)
\* S: the source forest (never changes while copying: new nodes are appended beyond it), st = [n, cur, ok]
CloneRun(S, cons, edges, j, st, fuel) ==
    IF j > Len(edges) \/ ~st.ok THEN st
    ELSE LET ed == edges[j] IN
         IF ed > 0 THEN
             IF S[ed].k = "doc" THEN CloneRun(S, cons, edges, j + 1, st, fuel)
             ELSE LET new == Len(st.n) + 1
                      n1 == Append(st.n, CopyOf(S[ed]))
                      a == L2AnyAppend(n1, cons, st.cur, new)
                  IN CloneRun(S, cons, edges, j + 1,
                              [n |-> a.n, cur |-> IF S[ed].k = "elem" THEN new ELSE st.cur, ok |-> a.res = "ok"], fuel)
         ELSE IF S[0 - ed].k # "elem" THEN CloneRun(S, cons, edges, j + 1, st, fuel)
         ELSE CloneRun(S, cons, edges, j + 1, [st EXCEPT !.cur = st.n[st.cur].p], fuel)
L2CloneNode(N, cons, x) ==
    IF N[x].k \notin {"doc", "elem"} THEN [n |-> Append(N, CopyOf(N[x])), ret |-> Len(N) + 1, ok |-> TRUE]
    ELSE LET top == Len(N) + 1
             N0 == Append(N, IF N[x].k = "doc" THEN CopyOf(N[x])
                             ELSE [k |-> "elem", p |-> 0, c |-> <<>>, ns |-> N[x].ns, ln |-> N[x].ln, t |-> <<>>, u |-> "", d |-> FALSE])
             r == CloneRun(N, cons, AllTraverse(N, x), 1, [n |-> N0, cur |-> top, ok |-> TRUE], Len(N))
         IN IF N[x].k = "elem"
            THEN [n |-> RawRemoveSplice(r.n, top), ret |-> FirstChild(r.n, top), ok |-> r.ok /\ FirstChild(r.n, top) # 0]
            ELSE [n |-> r.n, ret |-> top, ok |-> r.ok]

\* what the harness can see of the result: slots allocated during the call and freed again are never observed
Compact(n0, P) ==
    LET keep == SelectSeq([i \in 1..Len(P) |-> i], LAMBDA i : i <= n0 \/ P[i].k # "rm")
        newid(i) == IF i = 0 THEN 0 ELSE Pos(keep, i)
    IN [j \in 1..Len(keep) |->
          LET nd == P[keep[j]] IN [nd EXCEPT !.p = newid(nd.p), !.c = [q \in 1..Len(nd.c) |-> newid(nd.c[q])]]]
CompactId(n0, P, i) == Pos(SelectSeq([q \in 1..Len(P) |-> q], LAMBDA q : q <= n0 \/ P[q].k # "rm"), i)

L2CloneRefinesAt(N, cons, x) ==
    LET r == L2CloneNode(N, cons, x) IN
    r.ok /\ CloneOk(N, cons, x, Compact(Len(N), r.n), CompactId(Len(N), r.n, r.ret))

-----------------------------------------------------------------------------
(* comparison with L1                                                       *)

L2Of(e, N, cons) ==
    LET x == A1(e)  y == A2(e) IN
    CASE e.op = "append" -> L2Append(N, cons, x, y)
      [] e.op = "prepend" -> L2Prepend(N, cons, x, y)
      [] e.op = "insert_after" -> L2InsertAfter(N, cons, x, y)
      [] e.op = "insert_before" -> L2InsertBefore(N, cons, x, y)
      [] e.op = "replace" -> L2Replace(N, cons, x, y)
      [] e.op = "detach" -> L2Out("ok", L2Detach(N, cons, x), 0)
      [] e.op = "remove" -> L2Out("ok", L2Remove(N, cons, x), 0)
      [] e.op = "element_unwrap" -> L2Unwrap(N, cons, x)
      [] e.op = "element_wrap" -> L2Wrap(N, cons, x, e.ns, e.ln)
      [] e.op = "riw" -> L2Out("ok", L2Riw(N, cons, x), 0)
      [] e.op = "set_attribute" -> L2Out("ok", L2MapInsert(N, x, "attr", <<e.ns, e.ln>>, e.s, ""), 0)
      [] e.op = "remove_attribute" -> L2Out("ok", L2MapRemove(N, cons, x, "attr", <<e.ns, e.ln>>), 0)
      [] e.op = "set_namespace" -> L2Out("ok", L2MapInsert(N, x, "nsn", <<"", e.px>>, <<>>, e.uri), 0)
      [] e.op = "remove_namespace" -> L2Out("ok", L2MapRemove(N, cons, x, "nsn", <<"", e.px>>), 0)
      [] e.op = "append_attribute_node" -> L2AppendMapNode(N, x, y, "attr")
      [] e.op = "append_namespace_node" -> L2AppendMapNode(N, x, y, "nsn")
      [] e.op = "any_append" ->
             IF N[y].k = "nsn" THEN L2AppendMapNode(N, x, y, "nsn")
             ELSE IF N[y].k = "attr" THEN L2AppendMapNode(N, x, y, "attr")
             ELSE LET a == L2Append(N, cons, x, y) IN L2Out(a.res, a.n, IF a.res = "ok" THEN y ELSE 0)
L2Ops == {"append", "prepend", "insert_after", "insert_before", "replace", "detach", "remove", "element_unwrap", "element_wrap", "riw",
          "set_attribute", "remove_attribute", "set_namespace", "remove_namespace", "append_attribute_node", "append_namespace_node", "any_append"}

\* the code's outcome is one L1 allows
L2Allowed(e, N, cons) ==
    LET o == L2Of(e, N, cons) IN
    \E a \in EnumAllowed(e, N, cons) :
        a.res = o.res /\ a.n = o.n /\ (e.op \in {"element_wrap", "append_attribute_node", "append_namespace_node", "any_append"} => a.ret = o.ret)
=============================================================================
