------------------------------- MODULE MCLex -------------------------------
(***************************************************************************)
(* L2: the serialiser's escaping algorithms (src/entity.rs), transcribed   *)
(* as functions from characters to pieces / tokens, checked by TLC against *)
(* the lexical semantics of XotLex on ALL strings up to MaxLen over a      *)
(* class alphabet (ordinary, < & > ] quotes, TAB LF CR, a 2-byte and a     *)
(* 4-byte character): what is written must be legal where it stands and    *)
(* must denote exactly the original characters (C01, C14).                 *)
(* A counterexample is a design-level candidate defect; it is confirmed    *)
(* against the real crate by the serialiser conformance checks.            *)
(***************************************************************************)
EXTENDS XotLex, TLC

CONSTANTS MaxLen, Alphabet

VARIABLE s
Init == s = <<>>
Next == Len(s) < MaxLen /\ \E c \in Alphabet : s' = Append(s, c)
Spec == Init /\ [][Next]_s

P(t, c, n, e) == [t |-> t, c |-> c, n |-> n, up |-> FALSE, e |-> e]
Lit(c) == P("lit", c, "", "")
Ent(n) == P("ent", 0, n, "")
Dec(c) == P("dec", c, "", "")
LF == P("eol", 0, "", "lf")

\* serialize_text: & < always, > always unless unescaped_gt (then only after "]]"), CR as a reference
RECURSIVE EscTextB(_, _, _)
EscTextB(str, ugt, done) ==     \* done: characters already written (as spelled text)
    IF str = <<>> THEN <<>>
    ELSE LET c == Head(str)
             n == Len(done)
             p == IF c = 38 THEN Ent("amp") ELSE IF c = 60 THEN Ent("lt")
                  ELSE IF c = 62 THEN (IF ~ugt \/ (n >= 2 /\ done[n] = 93 /\ done[n - 1] = 93) THEN Ent("gt") ELSE Lit(62))
                  ELSE IF c = 13 THEN Dec(13) ELSE IF c = 10 THEN LF ELSE Lit(c)
         IN <<p>> \o EscTextB(Tail(str), ugt, done \o SpellPiece(p))
EscText(str, ugt) == EscTextB(str, ugt, <<>>)

\* serialize_attribute (always double quotes)
RECURSIVE EscAttr(_)
EscAttr(str) ==
    IF str = <<>> THEN <<>>
    ELSE LET c == Head(str)
             p == IF c = 38 THEN Ent("amp") ELSE IF c = 60 THEN Ent("lt") ELSE IF c = 39 THEN Ent("apos") ELSE IF c = 34 THEN Ent("quot")
                  ELSE IF c \in {9, 10, 13} THEN Dec(c) ELSE Lit(c)
         IN <<p>> \o EscAttr(Tail(str))

\* serialize_cdata: the bracket counter of src/entity.rs; output is the literal text between the outer <![CDATA[ and ]]>
RECURSIVE CDataB(_, _)
Brackets(k) == [j \in 1..k |-> 93]
CDataB(str, seen) ==
    IF str = <<>> THEN Brackets(seen)
    ELSE LET c == Head(str) IN
         IF c = 93 THEN (IF seen < 2 THEN CDataB(Tail(str), seen + 1) ELSE <<93>> \o CDataB(Tail(str), 2))
         ELSE IF c = 62 THEN
             (IF seen = 2 THEN <<93, 93, 93, 93, 62, 60, 33, 91, 67, 68, 65, 84, 65, 91, 62>> \o CDataB(Tail(str), 0)
              ELSE Brackets(seen) \o <<62>> \o CDataB(Tail(str), 0))
         ELSE IF c = 13 THEN Brackets(seen) \o <<93, 93, 62, 38, 35, 49, 51, 59, 60, 33, 91, 67, 68, 65, 84, 65, 91>> \o CDataB(Tail(str), 0)
         ELSE Brackets(seen) \o <<c>> \o CDataB(Tail(str), 0)
CDataOut(str) == <<60, 33, 91, 67, 68, 65, 84, 65, 91>> \o CDataB(str, 0) \o <<93, 93, 62>>

\* what a character-data text made of CDATA sections and "&#13;" denotes (a tiny lexer for exactly that language)
RECURSIVE CDataVal(_, _)
StartsWith(t, pre) == Len(t) >= Len(pre) /\ SubSeq(t, 1, Len(pre)) = pre
Drop(t, k) == SubSeq(t, k + 1, Len(t))
CDOpen == <<60, 33, 91, 67, 68, 65, 84, 65, 91>>
CDClose == <<93, 93, 62>>
CDataVal(t, inside) ==      \* "bad" is signalled by the character 0 (never in the alphabet)
    IF t = <<>> THEN (IF inside THEN <<0>> ELSE <<>>)
    ELSE IF inside THEN
        (IF StartsWith(t, CDClose) THEN CDataVal(Drop(t, 3), FALSE)
         ELSE IF Head(t) = 13 THEN <<10>> \o CDataVal(IF Len(t) >= 2 /\ t[2] = 10 THEN Drop(t, 2) ELSE Drop(t, 1), TRUE)
         ELSE <<Head(t)>> \o CDataVal(Tail(t), TRUE))
    ELSE IF StartsWith(t, CDOpen) THEN CDataVal(Drop(t, 9), TRUE)
    ELSE IF StartsWith(t, <<38, 35, 49, 51, 59>>) THEN <<13>> \o CDataVal(Drop(t, 5), FALSE)
    ELSE <<0>>       \* anything else outside a section would be markup / raw text

TextOk == PiecesOk(EscText(s, FALSE), FALSE, 0) /\ Val(EscText(s, FALSE), FALSE) = s
TextUgtOk == PiecesOk(EscText(s, TRUE), FALSE, 0) /\ Val(EscText(s, TRUE), FALSE) = s
AttrOk == PiecesOk(EscAttr(s), TRUE, 34) /\ Val(EscAttr(s), TRUE) = s
CDataOk == CDataVal(CDataOut(s), FALSE) = s
\* spelling and value are inverse for every legal piece sequence produced above (sanity of XotLex itself)
SpellValSane == Len(Spell(EscText(s, FALSE))) >= Len(s)
=============================================================================
