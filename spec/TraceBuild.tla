------------------------------ MODULE TraceBuild ------------------------------
(* C20: the tree built by a program of creation / attachment calls, by fixed::Document::xotify and by parsing a   *)
(* rendering must each have exactly the shape of the target document (kinds, names, values, declaration and       *)
(* attribute order, leading / trailing comments and PIs in place) and serialise to the same string.               *)
EXTENDS XotTree, TLC, Json, IOUtils
Rec == ndJsonDeserialize(IOEnv.TRACE)
OpenKnown == LET ks == JsonDeserialize(IOEnv.KNOWN) IN {ks[j] : j \in 1..Len(ks)}
VARIABLE i
Report(j, detail) == PrintT("REJECT " \o ToJson([i |-> j, prop |-> "C20", op |-> "build", a |-> <<>>, res |-> "", detail |-> detail, known |-> ""]))
RouteBad(D, r) ==
    IF r.res # "ok" THEN <<"route failed", r.res>>
    ELSE IF StructDefect(r.tree.n) # "none" THEN <<"tree not structurally valid">>
    ELSE IF Shape(r.tree.n, r.root) # Shape(D, 1) THEN <<"tree differs from the target document">>
    ELSE IF r.ser # "ok" THEN <<"does not serialise", r.ser>>
    ELSE <<>>
Judge(j) ==
    LET e == Rec[j]  D == e.target IN
    IF StructDefect(D) # "none" THEN PrintT("REJECT " \o ToJson([i |-> j, prop |-> "TOOL", op |-> "build", a |-> <<>>, res |-> "", detail |-> <<"target invalid">>, known |-> ""]))
    ELSE /\ RouteBad(D, e.steps) # <<>> => Report(j, <<"stepwise construction">> \o RouteBad(D, e.steps))
         /\ RouteBad(D, e.parsed) # <<>> => Report(j, <<"parse of a rendering">> \o RouteBad(D, e.parsed))
         /\ RouteBad(D, e.fixed) # <<>> => Report(j, <<"fixed::Document::xotify">> \o RouteBad(D, e.fixed))
         /\ (e.steps.ser = "ok" /\ e.parsed.ser = "ok" /\ e.fixed.ser = "ok" /\ ~(e.steps.text = e.parsed.text /\ e.parsed.text = e.fixed.text))
               => Report(j, <<"the three routes serialise differently">>)
         /\ (e.steps.res = "ok" /\ e.parsed.res = "ok" /\ e.fixed.res = "ok"
               /\ ~(DeepEqual(e.steps.tree.n, e.steps.root, e.steps.root)      \* (deep_equal across stores is shape equality here)
                    /\ Canon(e.steps.tree.n, e.steps.root, "all", "exact") = Canon(e.parsed.tree.n, e.parsed.root, "all", "exact")
                    /\ Canon(e.parsed.tree.n, e.parsed.root, "all", "exact") = Canon(e.fixed.tree.n, e.fixed.root, "all", "exact")))
               => Report(j, <<"the three routes are not deep-equal">>)
Init == i = 0
Next == i < Len(Rec) /\ i' = i + 1
Spec == Init /\ [][Next]_i
Judged == i = 0 \/ Judge(i)
Consumed == TLCGet("stats").diameter = Len(Rec) + 1 \/ PrintT(<<"NOTCONSUMED", TLCGet("stats").diameter, Len(Rec)>>)
=============================================================================
