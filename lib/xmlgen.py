"""Abstract XML documents and their lexical renderings as token sequences (the alphabet of spec/XotParse.tla).

The renderer draws every spelling choice through a `Chooser` (random, or an odometer that enumerates all choices
for small documents): literal / entity / decimal / hex spelling per character, line-end spelling, CDATA splits,
quote style, in-tag whitespace, empty-element form, prefix choice, XML declaration.  It knows nothing about what the
text means: the meaning of every rendering is computed by TLC (XotParse!Denote) and compared with what the real
parser built.  A catalogue of well-formedness-breaking edits (C03) is applied at token level."""
import random

XMLNS = "http://www.w3.org/XML/1998/namespace"
XMLNS_URI = "http://www.w3.org/XML/1998/namespace"      # bound to another prefix (or as default): accepted by the crate
URIS = ["u1", "u2", "u3", "http://x?a=1&b=2", "u v", XMLNS_URI, "a b c d"]


def cps(s):
    return [ord(c) for c in s]


class RandomChooser:
    def __init__(self, rnd):
        self.rnd = rnd

    def pick(self, n, label=""):
        return self.rnd.randrange(n)


class CanonChooser:
    """always the first choice (canonical spelling) except for the labels listed in `free`, drawn at random"""

    def __init__(self, rnd, free):
        self.rnd = rnd
        self.free = free

    def pick(self, n, label=""):
        return self.rnd.randrange(n) if label in self.free else 0


class Odometer:
    """Enumerates all choice vectors of the choices whose label is in `free` (all labels if free is None); every
    other choice takes its first (canonical) option.  Usage: loop { start(); render; if not advance(): break }."""

    def __init__(self, limit=None, free=None):
        self.free = free
        self.digits = []
        self.bases = []
        self.pos = 0
        self.first = True
        self.count = 0
        self.limit = limit

    def start(self):
        self.pos = 0

    def pick(self, n, label=""):
        if self.free is not None and label not in self.free:
            return 0
        if self.pos >= len(self.digits):
            self.digits.append(0)
            self.bases.append(n)
        self.bases[self.pos] = n
        d = self.digits[self.pos] % n
        self.pos += 1
        return d

    def advance(self):
        """next vector; returns False when exhausted"""
        self.count += 1
        if self.limit and self.count >= self.limit:
            return False
        self.digits = self.digits[: self.pos]
        self.bases = self.bases[: self.pos]
        i = len(self.digits) - 1
        while i >= 0:
            self.digits[i] += 1
            if self.digits[i] < self.bases[i]:
                return True
            self.digits.pop()
            self.bases.pop()
            i -= 1
        return False


# ------------------------------------------------------------------------------------------------ tokens
def piece(t, c=0, n="", up=False, e=""):
    return {"t": t, "c": c, "n": n, "up": up, "e": e}


def spell_piece(p):
    if p["t"] == "lit":
        return [p["c"]]
    if p["t"] == "ent":
        return cps("&" + p["n"] + ";")
    if p["t"] == "dec":
        return cps("&#%d;" % p["c"])
    if p["t"] == "hex":
        return cps("&#x" + (("%X" if p["up"] else "%x") % p["c"]) + ";")
    return {"lf": [10], "cr": [13], "crlf": [13, 10]}[p["e"]]


def spell(pieces):
    out = []
    for p in pieces:
        out += spell_piece(p)
    return out


def tok(k, parts, **kw):
    t = {"k": k, "parts": parts, "px": "", "ln": "", "empty": False, "attrs": [], "pieces": [], "v": [], "hasdata": False, "ver": "", "junk": ""}
    t.update(kw)
    return t


def part(r, s):
    return {"r": r, "s": list(s) if not isinstance(s, str) else cps(s)}


ENT = {38: "amp", 60: "lt", 62: "gt", 39: "apos", 34: "quot"}


def spell_char(c, ch, attr, quote, prev2, litmode=False):
    """choices of pieces that denote character c in the given context"""
    opts = []
    if c == 10 and not attr:
        opts += [piece("eol", e="lf"), piece("eol", e="cr"), piece("eol", e="crlf")]
    elif c == 32 and attr:
        opts += [piece("lit", 32), piece("lit", 9), piece("eol", e="lf"), piece("eol", e="cr"), piece("eol", e="crlf")]
    elif c in (13,) or (attr and c in (9, 10)):
        pass  # only references
    elif c in (38, 60):
        pass
    elif attr and c == quote:
        pass
    elif c == 62 and not attr and prev2 == [93, 93]:
        pass  # ]]> must not appear raw in character data
    else:
        opts.append(piece("lit", c))
    if litmode and opts:
        # a value written without references wherever that is possible (what a "nothing to decode here" shortcut sees)
        return opts[ch.pick(len(opts), "litchar")]
    if c in ENT:
        opts.append(piece("ent", n=ENT[c]))
    opts.append(piece("dec", c))
    opts.append(piece("hex", c, up=False))
    opts.append(piece("hex", c, up=True))
    return opts[ch.pick(len(opts), "char")]


def spell_value(val, ch, attr, quote):
    ps = []
    spelled = []
    litmode = ch.pick(3, "litmode") == 1
    for c in val:
        p = spell_char(c, ch, attr, quote, spelled[-2:], litmode)
        # a CR piece directly followed by an LF piece would be ONE line end (CR LF) in the text
        if p["t"] == "eol" and p["e"] == "lf" and ps and ps[-1]["t"] == "eol" and ps[-1]["e"] == "cr":
            p = piece("eol", e="crlf")
        ps.append(p)
        spelled += spell_piece(p)
    return ps


def qname_s(px, ln):
    return (px + ":" + ln) if px else ln


def in_scope(scope_stack):
    m = {"xml": XMLNS}
    for decls in scope_stack:
        for p, u in decls:
            m[p] = u
    return m


def pick_prefix(ns, scope, ch, attr):
    if ns == "":
        return ""
    cands = sorted(p for p, u in scope.items() if u == ns and (p != "" or not attr))
    if not cands:
        raise ValueError("document not usable: no prefix for " + ns)
    return cands[ch.pick(len(cands), "prefix")]


WS = [" ", "  ", "\n", "\t", "\r\n"]


def render_elem(e, ch, scope_stack, toks):
    scope_stack.append(e["decls"])
    scope = in_scope(scope_stack)
    px = pick_prefix(e["ns"], scope, ch, False)
    if e["ns"] == "" and scope.get("", "") != "":
        raise ValueError("document not usable: no-namespace element under a default namespace")
    parts = [part("lit", "<"), part("ename", qname_s(px, e["ln"]))]
    attrs = []
    items = [("decl", d) for d in e["decls"]] + [("attr", a) for a in e["attrs"]]
    # declarations and attributes may be interleaved in the text; their relative orders are kept
    order = list(range(len(items)))
    if ch.pick(2, "interleave") == 1 and e["decls"] and e["attrs"]:
        nd = len(e["decls"])
        order = []
        di, ai = 0, nd
        while di < nd or ai < len(items):
            if di < nd and (ai >= len(items) or ch.pick(2, "interleave2") == 0):
                order.append(di)
                di += 1
            else:
                order.append(ai)
                ai += 1
    for idx in order:
        kind, it = items[idx]
        q = [34, 39][ch.pick(2, "quote")]
        if kind == "decl":
            apx, aln = ("xmlns", it[0]) if it[0] else ("", "xmlns")
            val = cps(it[1])
        else:
            apx = pick_prefix(it[0], scope, ch, True)
            aln = it[1]
            val = it[2]
            if it[0] == XMLNS and it[1] == "id":
                # xml:id values may be written with extra spaces (normalised away by the parser)
                pad = [[], [32], [32, 32]][ch.pick(3, "idpad")]
                val = pad + val + pad
        pieces = spell_value(val, ch, True, q)
        parts += [part("lit", WS[ch.pick(len(WS), "ws")]), part("aname", qname_s(apx, aln)),
                  part("lit", ["=", " =", "= ", " = "][ch.pick(4, "eq")]), part("lit", [q]), part("aval", spell(pieces)), part("lit", [q])]
        attrs.append({"px": apx, "ln": aln, "pieces": pieces, "q": q})
    endws = ["", " ", "\n"][ch.pick(3, "endws")]
    empty = (not e["kids"]) and ch.pick(2, "empty") == 0
    parts.append(part("lit", endws + ("/>" if empty else ">")))
    toks.append(tok("stag", parts, px=px, ln=e["ln"], empty=empty, attrs=attrs))
    if not e["kids"] and not empty:
        maybe_empty_cdata(ch, toks)        # <a><![CDATA[]]></a> is an element without children
    render_kids(e["kids"], ch, scope_stack, toks)
    if not empty:
        toks.append(tok("etag", [part("lit", "</"), part("ename", qname_s(px, e["ln"])), part("lit", ["", " ", "\n"][ch.pick(3, "endws")] + ">")], px=px, ln=e["ln"]))
    scope_stack.pop()


def maybe_empty_cdata(ch, toks):
    """an empty CDATA section denotes no character data at all"""
    if ch.pick(10, "emptycdata") == 9:
        toks.append(tok("cdata", [part("lit", "<![CDATA["), part("cdata", []), part("lit", "]]>")], v=[]))


def render_text(val, ch, toks):
    """one text node: runs of character data and CDATA sections"""
    i = 0
    n = len(val)
    maybe_empty_cdata(ch, toks)
    # a carriage return (necessarily a reference) followed later by a line feed: now and then put the line feed into a
    # CDATA section of its own, where it may be written CR or CR LF - two kinds of CR in one text node
    forced = None
    crs = [k for k, c in enumerate(val) if c == 13]
    if crs:
        lfs = [k for k, c in enumerate(val) if c == 10 and k > crs[0]]
        if lfs and ch.pick(2, "crsplit") == 1:
            b = lfs[0]
            a = max(k for k in crs if k < b)
            forced = (a + 1, b + 1)
    while i < n:
        # length of this run
        j = n if ch.pick(2, "split") == 0 else i + 1 + ch.pick(max(1, n - i), "splitat") % (n - i)
        j = max(i + 1, min(j, n))
        if forced and i < forced[0]:
            j = forced[0]
        elif forced and i == forced[0]:
            j = forced[1]
        run = val[i:j]
        as_cdata = (ch.pick(3, "cdata") == 2 or (forced is not None and i == forced[0])) and 13 not in run and not has_cdata_end(run)
        if as_cdata:
            # LF inside CDATA may be written CR or CRLF
            spelled = []
            for c in run:
                if c == 10:
                    eol = [[10], [13], [13, 10]][ch.pick(3, "cdataeol")]
                    if eol == [10] and spelled and spelled[-1] == 13:
                        eol = [13, 10]          # (a CR written for the line feed before, then a bare LF, would read as ONE line end)
                    spelled += eol
                else:
                    spelled.append(c)
            toks.append(tok("cdata", [part("lit", "<![CDATA["), part("cdata", spelled), part("lit", "]]>")], v=spelled))
        else:
            pieces = spell_value(run, ch, False, 0)
            # a raw "]]>" must not be formed across two adjacent text tokens either
            if toks and toks[-1]["k"] == "text":
                # the whole run of directly preceding character-data tokens counts
                prev = []
                q = len(toks) - 1
                while q >= 0 and toks[q]["k"] == "text":
                    prev = spell(toks[q]["pieces"]) + prev
                    q -= 1
                sp = spell(pieces)
                joined = prev[-2:] + sp[:2]
                if has_cdata_end(joined):
                    pieces[0] = piece("dec", run[0])
                    if has_cdata_end(prev[-2:] + spell(pieces)[:2]) and len(pieces) > 1:
                        pieces[1] = piece("dec", run[1])
                lastp = toks[-1]["pieces"][-1] if toks[-1]["pieces"] else None
                if lastp and lastp["t"] == "eol" and lastp["e"] == "cr" and pieces[0]["t"] == "eol" and pieces[0]["e"] == "lf":
                    pieces[0] = piece("eol", e="crlf")
            toks.append(tok("text", [part("text", spell(pieces))], pieces=pieces))
        i = j
        maybe_empty_cdata(ch, toks)


def has_cdata_end(s):
    return any(s[k:k + 3] == [93, 93, 62] for k in range(len(s) - 2))


def render_kids(kids, ch, scope_stack, toks):
    for k in kids:
        if isinstance(k, dict):
            render_elem(k, ch, scope_stack, toks)
        elif k[0] == "text":
            render_text(k[1], ch, toks)
        elif k[0] == "comm":
            toks.append(tok("comm", [part("lit", "<!--"), part("comment", k[1]), part("lit", "-->")], v=list(k[1])))
        elif k[0] == "pi":
            target, data = k[1], k[2]
            if data is None:
                toks.append(tok("pi", [part("lit", "<?"), part("pitarget", target), part("lit", "?>")], ln=target, v=[], hasdata=False))
            else:
                sep = [" ", " ", "  ", "\n ", "\t", " \r\n  "][ch.pick(6, "pisep")]       # any white space separates target and data
                toks.append(tok("pi", [part("lit", "<?"), part("pitarget", target), part("lit", sep), part("pidata", data), part("lit", "?>")],
                                ln=target, v=list(data), hasdata=True))


def render_doc(doc, ch, mode="doc", encoding=None):
    """tokens of one rendering.  mode "doc": prolog + root + epilog; "frag": the content list doc["kids"]."""
    toks = []
    if mode == "doc":
        if encoding is None and ch.pick(8, "bom") == 7:
            # a byte order mark in front of everything: not a token of the document, but every offset counts it
            toks.append(tok("bom", [part("lit", [0xFEFF])]))
        d = ch.pick(4, "xmldecl") if encoding is None else 1
        if d:
            txt = '<?xml version="1.0"'
            if encoding or d >= 2:
                txt += ' encoding="%s"' % (encoding or "UTF-8")
            if d == 3:
                txt += ' standalone="yes"'
            txt += "?>"
            toks.append(tok("decl", [part("lit", txt)], ver="1.0"))
        for k in doc["before"]:
            maybe_ws(ch, toks)
            render_kids([k], ch, [], toks)
        maybe_ws(ch, toks)
        render_elem(doc["root"], ch, [], toks)
        for k in doc["after"]:
            maybe_ws(ch, toks)
            render_kids([k], ch, [], toks)
        maybe_ws(ch, toks)
    else:
        render_kids(doc["kids"], ch, [], toks)
    return toks


def maybe_ws(ch, toks):
    w = ["", "\n", " ", "\r\n"][ch.pick(4, "topws")]
    if w:
        toks.append(tok("ws", [part("lit", w)]))


def text_of(toks):
    out = []
    for t in toks:
        for p in t["parts"]:
            out += p["s"]
    return out


# ------------------------------------------------------------------------------------------------ abstract documents
NSS = ["", "u1", "u2"]
LNS = ["a", "b", "c"]
CLASSCHARS = [120, 60, 38, 62, 93, 34, 39, 9, 10, 13, 233, 0x1F600, 32, 0x85, 0x2028]       # NEL and LS are ordinary characters in XML 1.0


# character data in which line ends, carriage returns given as references, brackets and CDATA boundaries interact
TRICKY = [[120, 13, 121, 10, 122], [13, 10], [97, 13, 13, 98, 10], [13, 120, 10, 10], [93, 93, 62, 10], [120, 10, 13, 10, 121], [13, 93, 93], [10, 13]]


def rand_string(rnd, maxlen, rich=True):
    if rich and maxlen >= 4 and rnd.random() < 0.12:
        return list(rnd.choice(TRICKY))
    n = rnd.randrange(maxlen + 1)
    alpha = CLASSCHARS if rich else [120, 121, 32]
    return [rnd.choice(alpha) for _ in range(n)]


def rand_elem(rnd, depth, scope, budget, rich=True):
    """random element usable in `scope` (dict prefix -> uri of the bindings in scope)"""
    decls = []
    local = dict(scope)
    for _ in range(rnd.choice([0, 0, 1, 1, 2])):
        px = rnd.choice(["", "p", "q", "p", "q", "", "\u00e9", "\u65e5\u672c"])       # prefixes outside ASCII: spans are byte offsets
        if px in [d[0] for d in decls]:
            continue
        uri = rnd.choice(URIS[:3] + ([""] if px == "" else []) + (URIS[3:] if rnd.random() < 0.15 else []))
        decls.append((px, uri))
        local[px] = uri
    # element namespace: must be nameable
    elem_ns_choices = [u for p, u in local.items() if u and p != "xml"]
    if local.get("", "") == "":
        elem_ns_choices.append("")
    ns = rnd.choice(elem_ns_choices) if elem_ns_choices else ""
    if ns == "" and local.get("", "") != "":
        decls.append(("", ""))
        local[""] = ""
    attrs = []
    attr_ns_choices = [""] + [u for p, u in local.items() if u and p not in ("", "xml")]
    for _ in range(rnd.choice([0, 0, 1, 2])):
        a_ns = rnd.choice(attr_ns_choices)
        a_ln = rnd.choice(LNS)
        if a_ns == "" and rnd.random() < 0.15:
            a_ln = rnd.choice(["p", "q"])      # an attribute called like a prefix that the same tag may declare
        if a_ns != "" and rnd.random() < 0.1:
            a_ln = "xmlns"          # p:xmlns="v" is an ordinary attribute in p's namespace, not a declaration
        if (a_ns, a_ln) in [(a[0], a[1]) for a in attrs]:
            continue
        attrs.append((a_ns, a_ln, rand_string(rnd, 4, rich)))
    if rnd.random() < 0.12:
        # (only #x20 is trimmed and collapsed by xml:id normalisation: TAB, LF, CR - written as references - and other
        # Unicode spaces are part of the value)
        attrs.append((XMLNS, "id", cps(rnd.choice(["i1", "i2", "x y", "i3", "i1", "i2", "\ti4", "i5\r", "a\tb", "\u00a0i6", "i7\u3000", "x\n y"]))))
    if rnd.random() < 0.08:
        attrs.append((XMLNS, "space", cps(rnd.choice(["preserve", "default"]))))
    kids = []
    nk = rnd.choice([0, 1, 2, 3, 3, 4, 5, 7]) if depth > 0 else rnd.choice([0, 1, 1, 3, 4])     # (bounded by the size budget)
    last_text = False
    for _ in range(nk):
        if budget[0] <= 0:
            break
        r = rnd.random()
        if r < 0.4 and depth > 0:
            budget[0] -= 1
            kids.append(rand_elem(rnd, depth - 1, local, budget, rich))
            last_text = False
        elif r < 0.75:
            if last_text:
                continue
            s = rand_string(rnd, 5, rich)
            if s:
                kids.append(("text", s))
                last_text = True
                budget[0] -= 1
        elif r < 0.88:
            kids.append(("comm", rand_comment(rnd)))
            last_text = False
            budget[0] -= 1
        else:
            kids.append(rand_pi(rnd))
            last_text = False
            budget[0] -= 1
    return {"ns": ns, "ln": rnd.choice(LNS), "decls": decls, "attrs": attrs, "kids": kids}


def rand_comment(rnd):
    s = [rnd.choice([120, 32, 60, 38, 45, 233, 10, 13, 13]) for _ in range(rnd.randrange(4))]     # CR, CR LF: kept verbatim
    # no "--" and no trailing "-"
    out = []
    for c in s:
        if c == 45 and out and out[-1] == 45:
            continue
        out.append(c)
    if out and out[-1] == 45:
        out.append(120)
    return out


def rand_pi(rnd):
    # targets near the reserved name: only "xml" itself (in any case) is reserved
    target = rnd.choice(["pa", "pb", "pa", "pb", "xml-stylesheet", "xmlx", "XmLfoo", "xm", "x", "axml"])
    if rnd.random() < 0.4:
        return ("pi", target, None)
    data = [rnd.choice([120, 32, 60, 38, 62, 233, 32, 9, 10, 13]) for _ in range(1 + rnd.randrange(4))]
    if data[0] in (32, 9, 10, 13):
        data[0] = 120            # (leading white space is the separator, trailing white space is data)
    # no "?>"
    data = [c for i, c in enumerate(data) if not (c == 62 and i > 0 and data[i - 1] == 63)]
    return ("pi", target, data)


def rand_doc(rnd, size=12, depth=3, rich=True):
    budget = [size]
    root = rand_elem(rnd, depth, {}, budget, rich)
    before = [rnd.choice([("comm", rand_comment(rnd)), rand_pi(rnd)]) for _ in range(rnd.choice([0, 0, 1, 2, 3]))]
    after = [rnd.choice([("comm", rand_comment(rnd)), rand_pi(rnd)]) for _ in range(rnd.choice([0, 0, 1, 2, 3]))]
    dedupe_ids(root, set())
    return {"before": before, "root": root, "after": after}


def dedupe_ids(e, seen):
    keep = []
    for a in e["attrs"]:
        if a[0] == XMLNS and a[1] == "id":
            if tuple(a[2]) in seen:
                continue
            seen.add(tuple(a[2]))
        keep.append(a)
    e["attrs"] = keep
    for k in e["kids"]:
        if isinstance(k, dict):
            dedupe_ids(k, seen)


def doc_ids(doc):
    out = []

    def rec(e):
        for a in e["attrs"]:
            if a[0] == XMLNS and a[1] == "id":
                out.append(a[2])
        for k in e["kids"]:
            if isinstance(k, dict):
                rec(k)

    if "root" in doc:
        rec(doc["root"])
    else:
        for k in doc["kids"]:
            if isinstance(k, dict):
                rec(k)
    return out


# ------------------------------------------------------------------------------------------------ damage catalogue (C03)
DAMAGES = ["dup-attr-expanded-inherited", "rename-etag", "delete-etag", "duplicate-etag", "insert-etag", "stray-etag-top", "delete-root", "second-root", "top-text",
           "dup-attr-qname", "dup-attr-expanded", "dup-prefix-decl", "undeclared-elem-prefix", "undeclared-attr-prefix",
           "raw-lt", "raw-amp", "cdata-end-in-text", "unterminated-comment", "double-dash-comment", "unterminated-pi", "unterminated-cdata",
           "unterminated-ref", "unknown-entity", "bad-charref-syntax", "nonchar-ref", "dtd", "version-1.1", "dup-xml-id", "unclosed-root",
           "etag-other-prefix-same-ns", "truncated-stag", "lt-in-attr", "prefix-after-scope", "charref-overflow", "dup-xml-id-other-prefix", "pi-target-xml-case", "unterminated-ref-long"]

NONCHARS = [0, 1, 8, 11, 0xFFFE, 0xFFFF, 0xD800, 0x110000]


def junk(text, kind):
    return tok("junk", [part("lit", text)], junk=kind)


def damage(toks, kind, rnd, mode="doc"):
    """apply one well-formedness-breaking edit; returns the damaged token list or None if not applicable"""
    import copy
    t = copy.deepcopy(toks)
    stags = [i for i, x in enumerate(t) if x["k"] == "stag"]
    etags = [i for i, x in enumerate(t) if x["k"] == "etag"]
    open_stags = [i for i in stags if not t[i]["empty"]]
    content_pos = [i + 1 for i in open_stags]  # positions just inside an element
    texts = [i for i, x in enumerate(t) if x["k"] == "text"]

    def first_root():
        return stags[0] if stags else None

    if kind == "rename-etag" and etags:
        i = rnd.choice(etags)
        t[i]["ln"] = t[i]["ln"] + "z"
        t[i]["parts"][1]["s"] = t[i]["parts"][1]["s"] + [122]
    elif kind == "delete-etag" and etags:
        del t[rnd.choice(etags)]
    elif kind == "duplicate-etag" and etags:
        i = rnd.choice(etags)
        t.insert(i, copy.deepcopy(t[i]))
    elif kind == "insert-etag" and content_pos:
        i = rnd.choice(content_pos)
        t.insert(i, tok("etag", [part("lit", "</"), part("ename", "zz"), part("lit", ">")], px="", ln="zz"))
    elif kind == "stray-etag-top":
        t.append(tok("etag", [part("lit", "</"), part("ename", "a"), part("lit", ">")], px="", ln="a"))
    elif kind == "delete-root" and stags:
        # remove the whole root element
        r = first_root()
        depth = 0
        j = r
        while j < len(t):
            if t[j]["k"] == "stag" and not t[j]["empty"]:
                depth += 1
            if t[j]["k"] == "etag":
                depth -= 1
            j += 1
            if depth == 0:
                break
        del t[r:j]
    elif kind == "second-root":
        t.append(tok("stag", [part("lit", "<"), part("ename", "b"), part("lit", "/>")], px="", ln="b", empty=True))
    elif kind == "top-text":
        ps = [piece("lit", 120)]
        t.append(tok("text", [part("text", spell(ps))], pieces=ps))
    elif kind == "dup-attr-qname" and stags:
        c = [i for i in stags if any(not is_decl(a) for a in t[i]["attrs"])]
        if not c:
            return None
        i = rnd.choice(c)
        k = [j for j, a in enumerate(t[i]["attrs"]) if not is_decl(a)][0]
        add_attr(t[i], t[i]["attrs"][k]["px"], t[i]["attrs"][k]["ln"], [piece("lit", 122)])
    elif kind == "dup-attr-expanded" and stags:
        # two prefixes bound to the same namespace on this element, same local name
        i = rnd.choice(stags)
        add_attr(t[i], "xmlns", "dx", [piece("lit", c) for c in cps("u3")])
        add_attr(t[i], "xmlns", "dy", [piece("lit", c) for c in cps("u3")])
        add_attr(t[i], "dx", "k", [piece("lit", 49)])
        add_attr(t[i], "dy", "k", [piece("lit", 50)])
    elif kind == "dup-attr-expanded-inherited" and len(stags) >= 2:
        # the two prefixes are declared on the root, the clashing attributes sit on a descendant without declarations
        add_attr(t[stags[0]], "xmlns", "dx", [piece("lit", c) for c in cps("u3")])
        add_attr(t[stags[0]], "xmlns", "dy", [piece("lit", c) for c in cps("u3")])
        i = rnd.choice(stags[1:])
        if any(a["px"] == "xmlns" and a["ln"] in ("dx", "dy") for a in t[i]["attrs"]):
            return None
        add_attr(t[i], "dx", "k", [piece("lit", 49)])
        add_attr(t[i], "dy", "k", [piece("lit", 50)])
    elif kind == "dup-prefix-decl" and stags:
        i = rnd.choice(stags)
        add_attr(t[i], "xmlns", "dz", [piece("lit", c) for c in cps("u1")])
        add_attr(t[i], "xmlns", "dz", [piece("lit", c) for c in cps("u2")])
    elif kind == "prefix-after-scope" and stags:
        # a prefix declared on an element is used by a later sibling, after the element has ended (in a fragment: also
        # by a later top-level sibling)
        depth, ends = 0, {}
        stack = []
        for i, x in enumerate(t):
            if x["k"] == "stag":
                if x["empty"]:
                    ends[i] = (i, len(stack))
                else:
                    stack.append(i)
            elif x["k"] == "etag" and stack:
                j = stack.pop()
                ends[j] = (i, len(stack))
        cands = [(i, e) for i, (e, dep) in ends.items() if dep >= 1 or mode == "frag"]
        if not cands:
            return None
        i, e = rnd.choice(cands)
        add_attr(t[i], "xmlns", "dx", [piece("lit", c) for c in cps("u3")])
        t.insert(e + 1, tok("stag", [part("lit", "<"), part("ename", "dx:z"), part("lit", "/>")], px="dx", ln="z", empty=True, attrs=[]))
    elif kind == "charref-overflow" and content_pos:
        # a reference whose value only looks like a character after wrapping to 32 bits (or 16, or 8)
        bad = rnd.choice(["&#x100000041;", "&#4294967361;", "&#x10000000A;", "&#x1000000000000041;", "&#18446744073709551681;", "&#x110041;", "&#x200041;"])
        if rnd.random() < 0.4 and stags:
            i = stags[-1]
            add_attr(t[i], "", "bad", [piece("lit", 120)])
            vals = [p for p in t[i]["parts"] if p["r"] == "aval"]
            vals[-1]["s"] = cps("ab" + bad)
            t[i]["k"] = "junk"
            t[i]["junk"] = "bad-charref-in-attribute"
        else:
            t.insert(rnd.choice(content_pos), junk(bad, "bad-charref"))
    elif kind == "undeclared-elem-prefix" and content_pos:
        i = rnd.choice(content_pos)
        t.insert(i, tok("stag", [part("lit", "<"), part("ename", "und:e"), part("lit", "/>")], px="und", ln="e", empty=True))
    elif kind == "undeclared-attr-prefix" and stags:
        add_attr(t[rnd.choice(stags)], "und", "k", [piece("lit", 49)])
    elif kind == "raw-lt" and content_pos:
        t.insert(rnd.choice(content_pos), junk("x < y", "raw-lt"))
    elif kind == "raw-amp" and content_pos:
        t.insert(rnd.choice(content_pos), junk("x & y", "raw-amp"))
    elif kind == "cdata-end-in-text" and content_pos:
        t.insert(rnd.choice(content_pos), junk("x]]>y", "cdata-end"))
    elif kind == "unterminated-comment" and content_pos:
        i = rnd.choice(content_pos)
        t = t[:i] + [junk("<!-- x", "unterminated-comment")]      # the input ends inside the construct
    elif kind == "double-dash-comment" and content_pos:
        t.insert(rnd.choice(content_pos), junk("<!-- a -- b -->", "double-dash"))
    elif kind == "unterminated-pi" and content_pos:
        i = rnd.choice(content_pos)
        t = t[:i] + [junk("<?pa x", "unterminated-pi")]      # the input ends inside the construct
    elif kind == "unterminated-cdata" and content_pos:
        i = rnd.choice(content_pos)
        t = t[:i] + [junk("<![CDATA[ x", "unterminated-cdata")]      # the input ends inside the construct
    elif kind == "unterminated-ref" and content_pos:
        t.insert(rnd.choice(content_pos), junk("x&amp y", "unterminated-ref"))
    elif kind == "unknown-entity" and content_pos:
        if rnd.random() < 0.5 and etags:
            # late in a long run of character data, just before the last end tag
            t.insert(etags[-1], junk("abcdefghijklmnopqrstuvwxyz0123456789&nbsp;", "unknown-entity"))
        else:
            t.insert(rnd.choice(content_pos), junk("&nbsp;", "unknown-entity"))
    elif kind == "bad-charref-syntax" and content_pos:
        bad = rnd.choice(["&#+65;", "&#x+41;", "&#;", "&#x;", "&#65x;", "&#xG;", "&# 65;"])
        if rnd.random() < 0.5 and etags:
            t.insert(etags[-1], junk("abcdefghijklmnopqrstuvwxyz0123456789" + bad, "bad-charref"))
        elif rnd.random() < 0.3 and stags:
            # inside an attribute value, after other characters
            i = stags[-1]
            add_attr(t[i], "", "bad", [piece("lit", 120)])
            vals = [p for p in t[i]["parts"] if p["r"] == "aval"]
            vals[-1]["s"] = cps("abcdefghijklmnopqrstuvwxyz" + bad)
            t[i]["k"] = "junk"
            t[i]["junk"] = "bad-charref-in-attribute"
        else:
            t.insert(rnd.choice(content_pos), junk(bad, "bad-charref"))
    elif kind == "nonchar-ref" and content_pos:
        c = rnd.choice(NONCHARS)
        p = piece("dec", c) if rnd.random() < 0.5 else piece("hex", c, up=rnd.random() < 0.5)
        if rnd.random() < 0.6 or not stags:
            t.insert(rnd.choice(content_pos), tok("text", [part("text", spell([p]))], pieces=[p]))
        else:
            add_attr(t[rnd.choice(stags)], "", "nc", [p])
    elif kind == "dtd":
        ins = 1 if t and t[0]["k"] == "decl" else 0
        t.insert(ins, tok("dtd", [part("lit", rnd.choice(["<!DOCTYPE a>", "<!DOCTYPE a [<!ENTITY e 'x'>]>", '<!DOCTYPE a SYSTEM "a.dtd">']))]))
    elif kind == "version-1.1":
        ver = rnd.choice(["1.1", "1.00", "1.01", "2.0", "1.000", "01.0", "1.10"])
        d = tok("decl", [part("lit", '<?xml version="%s"?>' % ver)], ver=ver)
        if t and t[0]["k"] == "decl":
            t[0] = d
        else:
            t.insert(0, d)
    elif kind == "dup-xml-id" and len(stags) >= 1 and content_pos:
        i = rnd.choice(stags)
        add_attr(t[i], "xml", "id", [piece("lit", c) for c in cps("dup")])
        t.insert(rnd.choice(content_pos) if content_pos else len(t), tok(
            "stag", [part("lit", "<"), part("ename", "b"), part("lit", " "), part("aname", "xml:id"), part("lit", "="), part("lit", [34]),
                     part("aval", cps(" dup  ")), part("lit", [34]), part("lit", "/>")],
            px="", ln="b", empty=True, attrs=[{"px": "xml", "ln": "id", "pieces": [piece("lit", c) for c in cps(" dup  ")], "q": 34}]))
        if i >= len(t) or t[i]["k"] != "stag":
            return None
    elif kind == "dup-xml-id-other-prefix" and len(stags) >= 1 and content_pos:
        # the same ID once as xml:id and once under another prefix bound to the XML namespace
        i = stags[0]
        add_attr(t[i], "xmlns", "dx", [piece("lit", c) for c in cps(XMLNS_URI)])
        add_attr(t[i], "xml", "id", [piece("lit", c) for c in cps("dup")])
        t.insert(rnd.choice([p for p in content_pos if p > i] or [len(t)]), tok(
            "stag", [part("lit", "<"), part("ename", "b"), part("lit", " "), part("aname", "dx:id"), part("lit", "="), part("lit", [34]),
                     part("aval", cps("dup")), part("lit", [34]), part("lit", "/>")],
            px="", ln="b", empty=True, attrs=[{"px": "dx", "ln": "id", "pieces": [piece("lit", c) for c in cps("dup")], "q": 34}]))
    elif kind == "unclosed-root" and etags:
        del t[etags[-1]:]
    elif kind == "etag-other-prefix-same-ns" and open_stags:
        # <p1:a xmlns:p1="u3" xmlns:p2="u3"> ... </p2:a>
        i = rnd.choice(open_stags)
        # find matching etag
        depth = 0
        j = i
        while j < len(t):
            if t[j]["k"] == "stag" and not t[j]["empty"]:
                depth += 1
            if t[j]["k"] == "etag":
                depth -= 1
                if depth == 0:
                    break
            j += 1
        if j >= len(t):
            return None
        ln = t[i]["ln"]
        add_attr(t[i], "xmlns", "e1", [piece("lit", c) for c in cps("u3")])
        add_attr(t[i], "xmlns", "e2", [piece("lit", c) for c in cps("u3")])
        t[i]["px"] = "e1"
        t[i]["parts"][1]["s"] = cps("e1:" + ln)
        t[j]["px"] = "e2"
        t[j]["parts"][1]["s"] = cps("e2:" + ln)
    elif kind == "unterminated-ref-long" and content_pos:
        # a raw '&' that is never closed, followed by a long run in which multi-byte characters sit at every small offset
        # (whatever the parser does with the text behind the error position, it must not trip over a character boundary)
        tail = "a" * rnd.randrange(20, 40) + "".join(rnd.choice(["\u00e9", "\u65e5", "\U0001F600"]) for _ in range(12)) + " y"
        t.insert(rnd.choice(content_pos), junk("x&" + tail, "unterminated-ref"))
    elif kind == "pi-target-xml-case":
        # the reserved target in another letter case, wherever a processing instruction may stand
        bad = junk(rnd.choice(["<?XML x?>", "<?Xml?>", "<?xmL version=\"1.0\"?>", "<?XML?>", "<?xMl y ?>"]), "reserved-pi-target")
        if content_pos and rnd.random() < 0.6:
            t.insert(rnd.choice(content_pos), bad)
        elif rnd.random() < 0.5:
            t.append(bad)
        else:
            t.insert(1 if t and t[0]["k"] == "decl" else 0, bad)
    elif kind == "truncated-stag":
        t.append(junk(rnd.choice(["<a", "<a b='1'", "<a b=", "<"]), "truncated-stag"))
    elif kind == "lt-in-attr" and stags:
        i = rnd.choice(stags)
        add_attr(t[i], "", "lt", [piece("lit", 120)])
        # overwrite the spelled value with a raw '<' (and mark the token as junk: never well-formed)
        vals = [p for p in t[i]["parts"] if p["r"] == "aval"]
        vals[-1]["s"] = [60]
        t[i]["attrs"][-1]["pieces"] = [piece("lit", 60)]
    else:
        return None
    return t


def is_decl(a):
    return a["px"] == "xmlns" or (a["px"] == "" and a["ln"] == "xmlns")


def add_attr(stag, px, ln, pieces, q=34):
    """append an attribute to a start-tag token (before its closing part)"""
    last = stag["parts"].pop()
    stag["parts"] += [part("lit", " "), part("aname", qname_s(px, ln)), part("lit", "="), part("lit", [q]), part("aval", spell(pieces)), part("lit", [q]), last]
    stag["attrs"].append({"px": px, "ln": ln, "pieces": pieces, "q": q})


def wrap_fragment(toks):
    w1 = tok("stag", [part("lit", "<"), part("ename", "wrapper"), part("lit", ">")], px="", ln="wrapper")
    w2 = tok("etag", [part("lit", "</"), part("ename", "wrapper"), part("lit", ">")], px="", ln="wrapper")
    return [w1] + toks + [w2]


def scope_exit_docs():
    """documents in which a binding made (or shadowed) on an inner element must be gone again behind it:
    a[p=u1] / ( b[decls]( content ) , y ) with y (or its attribute) needing the OUTER binding of p, and content an element
    without anything of its own (the empty-element tag and the start/end tag pair are spellings of the same thing)"""
    docs = []
    E = lambda ns, ln, decls=(), attrs=(), kids=(): {"ns": ns, "ln": ln, "decls": list(decls), "attrs": list(attrs), "kids": list(kids)}
    for bdecl in ([("p", "u2")], [("", "u2")], [("q", "u2")], [("p", "u2"), ("q", "u1")], []):
        inner_ns = "u2" if ("", "u2") in bdecl else ""
        for content in ("none", "bare", "bare-text", "attr", "nested"):
            kids = {"none": [], "bare": [E(inner_ns, "c")], "bare-text": [E(inner_ns, "c"), ("text", [120])],
                    "attr": [E(inner_ns, "c", attrs=[("", "a", [118])])],
                    "nested": [E(inner_ns, "c", kids=[E(inner_ns, "c")])]}[content]
            for tail in ("elem", "attr", "both"):
                y = E("u1" if tail in ("elem", "both") else "", "b", attrs=[("u1", "a", [118])] if tail in ("attr", "both") else [])
                b = E(inner_ns if bdecl else "", "b", decls=bdecl, kids=kids)
                root = E("", "a", decls=[("p", "u1")], kids=[b, y])
                docs.append({"before": [], "root": root, "after": []})
        if any(px != "" and u == "u2" for px, u in bdecl):
            # ... and the inner binding is USED inside (by the inner element itself, by an element or by an attribute in it)
            # right before the outer one is needed again
            for use in ("self", "elem", "attr"):
                for tail in ("elem", "attr", "both"):
                    y = E("u1" if tail in ("elem", "both") else "", "b", attrs=[("u1", "a", [118])] if tail in ("attr", "both") else [])
                    kids = {"self": [], "elem": [E("u2", "c")], "attr": [E(inner_ns, "c", attrs=[("u2", "a", [118])])]}[use]
                    b = E("u2" if use == "self" else inner_ns, "b", decls=bdecl, kids=kids)
                    docs.append({"before": [], "root": E("", "a", decls=[("p", "u1")], kids=[b, y]), "after": []})
    return docs


def scope_exit_frags():
    """fragments with several top-level elements: what the first one declares must not reach the later ones"""
    frags = []
    E = lambda ns, ln, decls=(), attrs=(), kids=(): {"ns": ns, "ln": ln, "decls": list(decls), "attrs": list(attrs), "kids": list(kids)}
    for bdecl, bns in (([("", "u2")], "u2"), ([("p", "u2")], ""), ([("", "u2"), ("p", "u1")], "u2"), ([("q", "u1")], "")):
        for content in ([], [E(bns, "c")], [("text", [120])]):
            for lead in ([], [("text", [120])], [("comm", [120])]):
                for tail in ([E("", "b")], [E("", "b", kids=[E("", "c")])], [("text", [121]), E("", "b", attrs=[("", "a", [118])])], [E("", "b"), E("", "c")]):
                    frags.append({"kids": lead + [E(bns, "a", decls=bdecl, kids=content)] + tail})
    return frags
