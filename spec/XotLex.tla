------------------------------- MODULE XotLex -------------------------------
(***************************************************************************)
(* XML 1.0 at the lexical level: how characters may be spelled inside      *)
(* character data and attribute values, and what a spelling denotes.       *)
(*                                                                         *)
(* A piece is one unit of a spelled value:                                 *)
(*   [t |-> "lit", c]      the character itself                            *)
(*   [t |-> "ent", n]      a predefined entity reference  &n;              *)
(*   [t |-> "dec", c]      decimal character reference    &#c;             *)
(*   [t |-> "hex", c, up]  hexadecimal character reference &#xH;           *)
(*   [t |-> "eol", e]      a literal line end: "lf", "cr" or "crlf"        *)
(* (all pieces carry all of t, c, n, up, e so that sequences of pieces     *)
(* are homogeneous).  Characters are code points.                          *)
(*                                                                         *)
(* Spell(pieces) is the text as written, Val(pieces, attr) the characters  *)
(* the XML recommendation says it denotes: line ends become LF (2.11), in  *)
(* attribute values literal TAB / LF / CR become a space (3.3.3), and      *)
(* references denote their character verbatim.                             *)
(***************************************************************************)
EXTENDS Naturals, Sequences, FiniteSets

\* XML 1.0 Char production
IsChar(c) == c \in {9, 10, 13} \/ (c >= 32 /\ c <= 55295) \/ (c >= 57344 /\ c <= 65533) \/ (c >= 65536 /\ c <= 1114111)

EntChar(n) == CASE n = "amp" -> 38 [] n = "lt" -> 60 [] n = "gt" -> 62 [] n = "apos" -> 39 [] n = "quot" -> 34 [] OTHER -> 0
EntName == {"amp", "lt", "gt", "apos", "quot"}

RECURSIVE DecDigits(_)
DecDigits(n) == IF n < 10 THEN <<48 + n>> ELSE DecDigits(n \div 10) \o <<48 + (n % 10)>>
HexDigit(d, up) == IF d < 10 THEN 48 + d ELSE (IF up THEN 55 ELSE 87) + d
RECURSIVE HexDigits(_, _)
HexDigits(n, up) == IF n < 16 THEN <<HexDigit(n, up)>> ELSE HexDigits(n \div 16, up) \o <<HexDigit(n % 16, up)>>

\* "amp" etc. as characters
EntSpelling(n) ==
    CASE n = "amp" -> <<97, 109, 112>> [] n = "lt" -> <<108, 116>> [] n = "gt" -> <<103, 116>>
      [] n = "apos" -> <<97, 112, 111, 115>> [] n = "quot" -> <<113, 117, 111, 116>> [] OTHER -> <<63>>

SpellPiece(p) ==
    CASE p.t = "lit" -> <<p.c>>
      [] p.t = "ent" -> <<38>> \o EntSpelling(p.n) \o <<59>>
      [] p.t = "dec" -> <<38, 35>> \o DecDigits(p.c) \o <<59>>
      [] p.t = "hex" -> <<38, 35, 120>> \o HexDigits(p.c, p.up) \o <<59>>
      [] p.t = "eol" -> (IF p.e = "lf" THEN <<10>> ELSE IF p.e = "cr" THEN <<13>> ELSE <<13, 10>>)

ValPiece(p, attr) ==
    CASE p.t = "lit" -> IF attr /\ p.c = 9 THEN <<32>> ELSE <<p.c>>
      [] p.t = "ent" -> <<EntChar(p.n)>>
      [] p.t \in {"dec", "hex"} -> <<p.c>>
      [] p.t = "eol" -> IF attr THEN <<32>> ELSE <<10>>

RECURSIVE Spell(_)
Spell(ps) == IF ps = <<>> THEN <<>> ELSE SpellPiece(Head(ps)) \o Spell(Tail(ps))
RECURSIVE Val(_, _)
Val(ps, attr) == IF ps = <<>> THEN <<>> ELSE ValPiece(Head(ps), attr) \o Val(Tail(ps), attr)

\* Is a piece legal where it stands?  quote: the delimiter of the attribute value (0 in character data)
PieceOk(p, attr, quote) ==
    CASE p.t = "lit" -> /\ IsChar(p.c) /\ p.c \notin {38, 60, 10, 13}     \* raw & and < never; line ends are "eol" pieces
                        /\ (attr => p.c # quote)
      [] p.t = "ent" -> p.n \in EntName
      [] p.t \in {"dec", "hex"} -> IsChar(p.c)
      [] p.t = "eol" -> p.e \in {"lf", "cr", "crlf"}
      [] OTHER -> FALSE

\* no raw "]]>" in character data
RECURSIVE NoCdataEnd(_)
NoCdataEnd(s) == Len(s) < 3 \/ (~(s[1] = 93 /\ s[2] = 93 /\ s[3] = 62) /\ NoCdataEnd(Tail(s)))

PiecesOk(ps, attr, quote) ==
    /\ \A j \in 1..Len(ps) : PieceOk(ps[j], attr, quote)
    \* CR directly followed by LF is one line end, not two pieces
    /\ \A j \in 1..(Len(ps) - 1) : ~(ps[j].t = "eol" /\ ps[j].e = "cr" /\ ps[j + 1].t = "eol" /\ ps[j + 1].e = "lf")
    /\ attr \/ NoCdataEnd(Spell(ps))

\* UTF-8 length of a code point, and of a string
U8(c) == IF c < 128 THEN 1 ELSE IF c < 2048 THEN 2 ELSE IF c < 65536 THEN 3 ELSE 4
RECURSIVE U8Len(_)
U8Len(s) == IF s = <<>> THEN 0 ELSE U8(Head(s)) + U8Len(Tail(s))

\* line-end normalisation of literal text (CDATA sections, comments, PIs): CRLF and CR become LF
RECURSIVE EolNorm(_)
EolNorm(s) ==
    IF s = <<>> THEN <<>>
    ELSE IF Head(s) = 13 THEN <<10>> \o EolNorm(IF Len(s) >= 2 /\ s[2] = 10 THEN Tail(Tail(s)) ELSE Tail(s))
    ELSE <<Head(s)>> \o EolNorm(Tail(s))

\* xml:id normalisation (xml:id 1.0, section 4): strip leading / trailing spaces, collapse runs of spaces
RECURSIVE CollapseSpaces(_, _)
CollapseSpaces(s, prevSpace) ==
    IF s = <<>> THEN <<>>
    ELSE IF Head(s) = 32 THEN (IF prevSpace THEN <<>> ELSE <<32>>) \o CollapseSpaces(Tail(s), TRUE)
    ELSE <<Head(s)>> \o CollapseSpaces(Tail(s), FALSE)
NormId(s) ==
    LET c == CollapseSpaces(s, TRUE)      \* leading spaces dropped
    IN IF c # <<>> /\ c[Len(c)] = 32 THEN SubSeq(c, 1, Len(c) - 1) ELSE c

=============================================================================
