SPECIFICATION Spec
CONSTANTS
  MaxStamp = 2
  MaxSlots = 2
  MaxAllocs = 9
  Saturate = "retire"
INVARIANTS HandlesStayDead LiveHandlesLive NoAliasing
CHECK_DEADLOCK FALSE
