SPECIFICATION Spec
CONSTANTS
  MaxLen = 4
  Alphabet = {120, 60, 38, 62, 93, 34, 39, 9, 10, 13, 233, 128512}
INVARIANTS TextOk TextUgtOk AttrOk CDataOk SpellValSane
CHECK_DEADLOCK FALSE
