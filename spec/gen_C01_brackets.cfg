SPECIFICATION Spec
CONSTANTS
  MaxLen = 4
  AttrMaxLen = 0
  Alphabet = {120, 93, 62, 60, 38, 13}
  Dump = TRUE
INVARIANTS InDomainAlways DumpState RT
CHECK_DEADLOCK FALSE
