//! Abstract projection of a real `Xot` through its public API only.
//!
//! Every handle the harness has ever seen gets an abstract id 1,2,3,… (never reused).  After each call the
//! whole forest is projected to JSON: per id its kind, parent, raw child list (namespace, attribute and
//! normal children in arena order), name, text, uri.  All walks are step-bounded so that a structure the
//! code corrupted (cycle, node listed twice) is *observed* rather than looped on.
use serde_json::{json, Value as J};
use std::collections::HashMap;
use xot::{Node, Value, Xot};

pub const WALK_BOUND: usize = 4000;

pub struct World {
    pub xot: Xot,
    pub handles: Vec<Node>, // index = id-1
    pub ids: HashMap<Node, usize>,
    pub cons: bool,
    pub ever_off: bool,
    /// a second store obtained by Xot::clone (C12); projected through the same handles
    pub twin: Option<Box<Xot>>,
    /// set when a bounded walk hit its bound or a parent chain did not end: the structure is corrupt
    pub corrupt: bool,
}

pub fn cps(s: &str) -> Vec<u32> {
    s.chars().map(|c| c as u32).collect()
}

pub fn from_cps(v: &J) -> String {
    v.as_array()
        .map(|a| {
            a.iter()
                .map(|x| char::from_u32(x.as_u64().unwrap_or(63) as u32).unwrap_or('?'))
                .collect()
        })
        .unwrap_or_default()
}

impl World {
    pub fn new() -> Self {
        World { xot: Xot::new(), handles: vec![], ids: HashMap::new(), cons: true, ever_off: false, twin: None, corrupt: false }
    }

    pub fn id_of(&mut self, n: Node) -> usize {
        if let Some(i) = self.ids.get(&n) {
            return *i;
        }
        self.handles.push(n);
        let i = self.handles.len();
        self.ids.insert(n, i);
        i
    }

    pub fn known(&self, n: Node) -> Option<usize> {
        self.ids.get(&n).copied()
    }

    pub fn h(&self, id: usize) -> Node {
        self.handles[id - 1]
    }

    pub fn live(&self, id: usize) -> bool {
        !self.xot.is_removed(self.h(id))
    }

    pub fn live_ids(&self) -> Vec<usize> {
        (1..=self.handles.len()).filter(|i| self.live(*i)).collect()
    }

    /// Discover handles not seen before: first `ret` (if any), then for every live known handle walk up to
    /// its root and then over the whole tree in all-descendants order.
    pub fn discover(&mut self, ret: Option<Node>) {
        if let Some(r) = ret {
            self.id_of(r);
        }
        let mut i = 0;
        while i < self.handles.len() {
            let h = self.handles[i];
            i += 1;
            if self.xot.is_removed(h) {
                continue;
            }
            // walk up
            let mut cur = h;
            let mut steps = 0;
            let mut top = h;
            loop {
                match self.xot.parent(cur) {
                    Some(p) => {
                        cur = p;
                        top = p;
                        steps += 1;
                        if steps > WALK_BOUND {
                            self.corrupt = true;
                            break;
                        }
                    }
                    None => break,
                }
            }
            if self.xot.parent(h).is_some() && self.known(top).is_some() {
                // its root is (or will be) walked on its own turn
                continue;
            }
            let all: Vec<Node> = self.xot.all_descendants(top).take(WALK_BOUND + 1).collect();
            if all.len() > WALK_BOUND {
                self.corrupt = true;
            }
            for n in all.into_iter().take(WALK_BOUND) {
                self.id_of(n);
            }
        }
    }

    fn name_pair(&self, name: xot::NameId) -> (String, String) {
        let (l, ns) = self.xot.name_ns_str(name);
        (ns.to_string(), l.to_string())
    }

    pub fn project_node(&mut self, id: usize) -> J {
        let h = self.h(id);
        if self.xot.is_removed(h) {
            return json!({"k":"rm","p":0,"c":[],"ns":"","ln":"","t":[],"u":"","d":false});
        }
        let p = match self.xot.parent(h) {
            Some(p) => self.known(p).unwrap_or(0),
            None => 0,
        };
        // raw children: direct children in arena order = all_descendants filtered by parent == h
        let mut kids: Vec<usize> = vec![];
        let desc: Vec<Node> = self.xot.all_descendants(h).take(WALK_BOUND + 1).collect();
        if desc.len() > WALK_BOUND {
            self.corrupt = true;
        }
        for d in desc.iter().skip(1).take(WALK_BOUND) {
            if self.xot.parent(*d) == Some(h) {
                kids.push(self.known(*d).unwrap_or(0));
            }
        }
        let (k, ns, ln, t, u, dflag): (&str, String, String, Vec<u32>, String, bool) = match self.xot.value(h) {
            Value::Document => ("doc", "".into(), "".into(), vec![], "".into(), false),
            Value::Element(e) => {
                let (ns, ln) = self.name_pair(e.name());
                ("elem", ns, ln, vec![], "".into(), false)
            }
            Value::Text(t) => ("text", "".into(), "".into(), cps(t.get()), "".into(), false),
            Value::Comment(c) => ("comm", "".into(), "".into(), cps(c.get()), "".into(), false),
            Value::ProcessingInstruction(pi) => {
                let (ns, ln) = self.name_pair(pi.target());
                ("pi", ns, ln, cps(pi.data().unwrap_or("")), "".into(), pi.data().is_some())
            }
            Value::Attribute(a) => {
                let (ns, ln) = self.name_pair(a.name());
                ("attr", ns, ln, cps(a.value()), "".into(), false)
            }
            Value::Namespace(n) => (
                "nsn",
                "".into(),
                self.xot.prefix_str(n.prefix()).to_string(),
                vec![],
                self.xot.namespace_str(n.namespace()).to_string(),
                false,
            ),
        };
        json!({"k":k,"p":p,"c":kids,"ns":ns,"ln":ln,"t":t,"u":u,"d":dflag})
    }

    /// Full projection (after discovery).
    pub fn project(&mut self, ret: Option<Node>) -> J {
        self.discover(ret);
        let n = self.handles.len();
        let mut nodes = Vec::with_capacity(n);
        for id in 1..=n {
            nodes.push(self.project_node(id));
        }
        // parentless live nodes that nevertheless have a sibling (C04: "a node without a parent has no siblings")
        let mut rs: Vec<usize> = vec![];
        for id in 1..=n {
            let h = self.h(id);
            if !self.xot.is_removed(h) && self.xot.parent(h).is_none() {
                let v = self.xot.value(h);
                let normal = !matches!(v, Value::Attribute(_) | Value::Namespace(_));
                // next_sibling/previous_sibling are category-filtered; use the following/preceding iterators too
                let has = self.xot.next_sibling(h).is_some()
                    || self.xot.previous_sibling(h).is_some()
                    || self.xot.following_siblings(h).take(3).count() > 1
                    || self.xot.preceding_siblings(h).take(3).count() > 1;
                let _ = normal;
                if has {
                    rs.push(id);
                }
            }
        }
        // xml:id index: what xml_id_node hands out for every document node and a few id values (C04: never a removed node)
        let mut xid: Vec<J> = vec![];
        for id in 1..=n {
            let h = self.h(id);
            if !self.xot.is_removed(h) && self.xot.is_document(h) {
                for v in ["i1", "i2", "i3", "x y", "dup"] {
                    if let Some(found) = self.xot.xml_id_node(h, v) {
                        let fid = self.known(found).unwrap_or(0);
                        let removed = std::panic::catch_unwind(std::panic::AssertUnwindSafe(|| self.xot.is_removed(found))).unwrap_or(true);
                        xid.push(json!([id, v, fid, removed]));
                    }
                }
            }
        }
        // the other store (if any), projected through the same handles; handles that only exist on this side are skipped
        let tw = if self.twin.is_some() {
            let mut other = self.twin.take().unwrap();
            std::mem::swap(&mut self.xot, &mut *other);
            let was_corrupt = self.corrupt;
            let tn: Vec<J> = (1..=n).map(|id| {
                let h = self.h(id);
                match std::panic::catch_unwind(std::panic::AssertUnwindSafe(|| self.xot.is_removed(h))) {
                    Ok(_) => std::panic::catch_unwind(std::panic::AssertUnwindSafe(|| self.project_node(id))).unwrap_or(json!({"k":"?"})),
                    Err(_) => json!({"k":"absent"}),
                }
            }).collect();
            // the xml:id index of the other store, asked through the same document handles
            let mut txid: Vec<J> = vec![];
            for id in 1..=n {
                let h = self.h(id);
                let live_doc = std::panic::catch_unwind(std::panic::AssertUnwindSafe(|| !self.xot.is_removed(h) && self.xot.is_document(h))).unwrap_or(false);
                if live_doc {
                    for v in ["i1", "i2", "i3", "x y", "dup"] {
                        if let Ok(Some(found)) = std::panic::catch_unwind(std::panic::AssertUnwindSafe(|| self.xot.xml_id_node(h, v))) {
                            txid.push(json!([id, v, self.known(found).unwrap_or(0)]));
                        }
                    }
                }
            }
            std::mem::swap(&mut self.xot, &mut *other);
            self.twin = Some(other);
            self.corrupt = was_corrupt;
            json!({"has": true, "n": tn, "xid": txid})
        } else {
            json!({"has": false, "n": [], "xid": []})
        };
        json!({"n": nodes, "cons": self.cons, "eo": self.ever_off, "rs": rs, "bad": if self.corrupt { "walk-bound" } else { "" }, "tw": tw, "xid": xid})
    }

    /// Build a world from an abstract state (as dumped by TLC or logged earlier).  Ids are preserved.
    /// Returns Err(description) if the state cannot be rebuilt through the public API (tool error, not a
    /// property violation).
    pub fn build(st: &J) -> Result<World, String> {
        let mut w = World::new();
        let nodes = st["n"].as_array().ok_or("no n")?;
        let cons = st["cons"].as_bool().unwrap_or(true);
        w.xot.set_text_consolidation(false);
        for nd in nodes {
            let k = nd["k"].as_str().unwrap_or("");
            let ns = nd["ns"].as_str().unwrap_or("");
            let ln = nd["ln"].as_str().unwrap_or("");
            let t = from_cps(&nd["t"]);
            let u = nd["u"].as_str().unwrap_or("");
            let h = match k {
                "doc" => w.xot.new_document(),
                "elem" => {
                    let nsid = w.xot.add_namespace(ns);
                    let name = w.xot.add_name_ns(ln, nsid);
                    w.xot.new_element(name)
                }
                "text" => w.xot.new_text(&t),
                "comm" => w.xot.new_comment(&t),
                "pi" => {
                    let nsid = w.xot.add_namespace(ns);
                    let name = w.xot.add_name_ns(ln, nsid);
                    let d = nd["d"].as_bool().unwrap_or(false);
                    w.xot.new_processing_instruction(name, if d { Some(t.as_str()) } else { None })
                }
                "attr" => {
                    let nsid = w.xot.add_namespace(ns);
                    let name = w.xot.add_name_ns(ln, nsid);
                    w.xot.new_attribute_node(name, t.clone())
                }
                "nsn" => {
                    let p = w.xot.add_prefix(ln);
                    let nsid = w.xot.add_namespace(u);
                    w.xot.new_namespace_node(p, nsid)
                }
                "rm" => w.xot.new_text("removed"),
                other => return Err(format!("unknown kind {other}")),
            };
            w.id_of(h);
        }
        // attach children in order
        for (i, nd) in nodes.iter().enumerate() {
            let id = i + 1;
            if let Some(c) = nd["c"].as_array() {
                for ch in c {
                    let cid = ch.as_u64().unwrap_or(0) as usize;
                    if cid == 0 || cid > nodes.len() {
                        return Err("bad child id".into());
                    }
                    let (ph, chh) = (w.h(id), w.h(cid));
                    let r = w.xot.any_append(ph, chh);
                    if r.is_err() {
                        return Err(format!("cannot attach {cid} under {id}"));
                    }
                }
            }
        }
        for (i, nd) in nodes.iter().enumerate() {
            if nd["k"].as_str() == Some("rm") {
                let h = w.h(i + 1);
                w.xot.remove(h).map_err(|e| e.to_string())?;
            }
        }
        w.xot.set_text_consolidation(cons);
        w.cons = cons;
        w.ever_off = st["eo"].as_bool().unwrap_or(!cons);
        // read back and compare
        let back = w.project(None);
        if back["n"] != st["n"] || back["cons"] != st["cons"] || back["rs"].as_array().map(|a| a.len()) != Some(0) {
            // the public creation / append calls did not produce the intended forest: log the construction as an episode
            // of ordinary events, so that TLC can point at the call that deviates from L1
            crate::forest::log_build_episode(st);
            return Err(format!("rebuilt state differs: {}", back));
        }
        Ok(w)
    }
}
