------------------------------ MODULE MCPretty ------------------------------
(***************************************************************************)
(* Bounded-exhaustive generator for the indentation clause of C14: all     *)
(* documents  doc / r[xml:space=sr] / ( a[xml:space=sa] / K , S )  where   *)
(* sr, sa range over {absent, preserve, default, other}, K over all child  *)
(* sequences of length <= 2 of {element, text, comment} and S over         *)
(* {nothing, element, text}: text / mixed content and xml:space at every   *)
(* depth.  TLC checks that the relation PrettyRelated is reflexive on each *)
(* (what is allowed includes "add nothing") and prints it as a JSON forest.*)
(***************************************************************************)
EXTENDS XotPrettyL2, TLC, Json

CONSTANT Dump

Nd(k, p, c, ns, ln, t) == [k |-> k, p |-> p, c |-> c, ns |-> ns, ln |-> ln, t |-> t, u |-> "", d |-> FALSE]
SpaceVal(s) == IF s = "preserve" THEN PreserveCps ELSE IF s = "default" THEN <<100, 101, 102, 97, 117, 108, 116>> ELSE <<111>>
KidKinds == {"e", "t", "c"}
KidSeqs == {<<>>} \cup {<<x>> : x \in KidKinds} \cup {<<x, y>> : x \in KidKinds, y \in KidKinds}

\* build the forest incrementally: Add(N, parent, node) appends node under parent
Add(N, parent, nd) == [Append(N, [nd EXCEPT !.p = parent]) EXCEPT ![parent].c = Append(@, Len(N) + 1)]
KidNode(x) == IF x = "e" THEN Nd("elem", 0, <<>>, "", "b", <<>>) ELSE IF x = "t" THEN Nd("text", 0, <<>>, "", "", <<120>>) ELSE Nd("comm", 0, <<>>, "", "", <<107>>)
RECURSIVE AddKids(_, _, _, _)
AddKids(N, parent, ks, j) == IF j > Len(ks) THEN N ELSE AddKids(Add(N, parent, KidNode(ks[j])), parent, ks, j + 1)

Mk(sr, sa, K, S) ==
    LET N0 == <<Nd("doc", 0, <<>>, "", "", <<>>)>>
        N1 == Add(N0, 1, Nd("elem", 0, <<>>, "", "r", <<>>))                                  \* r = 2
        N2 == IF sr = "-" THEN N1 ELSE Add(N1, 2, Nd("attr", 0, <<>>, XmlNs, "space", SpaceVal(sr)))
        a == Len(N2) + 1
        N3 == Add(N2, 2, Nd("elem", 0, <<>>, "", "a", <<>>))
        N4 == IF sa = "-" THEN N3 ELSE Add(N3, a, Nd("attr", 0, <<>>, XmlNs, "space", SpaceVal(sa)))
        \* adjacent text nodes are not representable: skip the second of two texts
        K2 == IF Len(K) = 2 /\ K[1] = "t" /\ K[2] = "t" THEN <<"t">> ELSE K
        N5 == AddKids(N4, a, K2, 1)
    IN IF S = "-" THEN N5 ELSE Add(N5, 2, KidNode(S))

VARIABLE F
Init == \E sr \in {"-", "preserve", "default", "other"}, sa \in {"-", "preserve", "default", "other"}, K \in KidSeqs, S \in {"-", "e", "t"} :
            F = [n |-> Mk(sr, sa, K, S), cons |-> TRUE, eo |-> FALSE]
Next == UNCHANGED F
Spec == Init /\ [][Next]_F

InDomainAlways == StructValidCore(F.n) /\ Representable(F.n, 1) /\ Usable(F.n, 1)
PrettyReflexive == \A sup \in {{}, {<<"", "a">>}, {<<"", "r">>}} : PrettyRelated(F.n, 1, F.n, 1, sup)
\* the transcribed stack machine only writes white space where C14 allows it
PrettyL2Refines == \A sup \in {{}, {<<"", "a">>}, {<<"", "r">>}} : L2RefinesL1(F.n, 1, sup) /\ L2RefinesL1(F.n, 2, sup)
DumpState == Dump => PrintT("STATE " \o ToJson(F))
=============================================================================
