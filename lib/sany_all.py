#!/usr/bin/env python3
"""Syntax/semantic check (SANY) of every TLA+ module in /verif/spec."""
import glob, os, subprocess, sys
spec = os.path.join(os.path.dirname(os.path.dirname(os.path.abspath(__file__))), "spec")
bad = 0
for f in sorted(glob.glob(os.path.join(spec, "*.tla"))):
    p = subprocess.run(["java", "-cp", "/opt/veriftools/tla/tla2tools.jar:/opt/veriftools/tla/CommunityModules-deps.jar", "tla2sany.SANY", os.path.basename(f)],
                       cwd=spec, stdout=subprocess.PIPE, stderr=subprocess.STDOUT, text=True)
    ok = p.returncode == 0 and "error" not in p.stdout.lower().replace("0 error", "")
    print(("ok   " if ok else "FAIL ") + os.path.basename(f))
    if not ok:
        print(p.stdout[-2000:])
        bad += 1
sys.exit(1 if bad else 0)
