#!/usr/bin/env python3
import json, sys
b = json.load(open(sys.argv[1]))
sc = b["scenario"]
def show(n):
    return [(i + 1, x["k"], x["p"], x["c"], x["ns"], x["ln"], "".join(map(chr, x["t"])), x["u"]) for i, x in enumerate(n) if x["k"] != "rm"]
print("detail:", json.dumps(b["detail"])[:600])
print("op:", sc["ops"])
print("pre :", show(sc["pre"]["n"]), "cons", sc["pre"]["cons"])
print("post:", show(sc["observed"]["post"]["n"]), "res", sc["observed"]["res"], "ret", sc["observed"]["ret"])
