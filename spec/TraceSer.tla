------------------------------ MODULE TraceSer ------------------------------
(***************************************************************************)
(* Conformance of the XML serialiser (engine C, serialiser side): C01,     *)
(* C14, C16 and the name-resolution clause of C10.  An event is one        *)
(* abstract forest built in a real Xot, one of its trees serialised under  *)
(* given parameters through every entry point (string, Write, tokens,      *)
(* pretty tokens, output events) and the reparse of the string             *)
(* (harness/src/ser.rs).                                                   *)
(***************************************************************************)
EXTENDS XotSerial, XotKnown, TLC, Json, IOUtils

Rec == ndJsonDeserialize(IOEnv.TRACE)
OpenKnown == LET ks == JsonDeserialize(IOEnv.KNOWN) IN {ks[j] : j \in 1..Len(ks)}

VARIABLE i

Report(j, prop, detail) ==
    LET kid == KnownSer(prop, Rec[j], detail)
        shown == IF kid \in OpenKnown THEN kid ELSE ""
    IN PrintT("REJECT " \o ToJson([i |-> j, prop |-> prop, op |-> "ser", a |-> <<Rec[j].root>>, res |-> Rec[j].res, detail |-> detail, known |-> shown]))

PairSetS(s) == {<<s[j][1], s[j][2]>> : j \in 1..Len(s)}
Wants(e, w) == \E j \in 1..Len(e.what) : e.what[j] = w
DefaultParams(e) == e.cdata = <<>> /\ ~e.ugt /\ e.decl = 0 /\ ~e.indent

\* the node of the reparsed forest that corresponds to the serialised root
ReRoot(e) ==
    LET N == e.st.n IN
    IF N[e.root].k = "doc" THEN e.reroot ELSE DocumentElement(e.retree.n, e.reroot)

SerDomain(e) ==
    LET N == e.st.n IN
    /\ N[e.root].p = 0
    /\ Representable(N, e.root) \/ (e.frag /\ N[e.root].k = "doc" /\ \A y \in SeqRange(NormKids(N, e.root)) : Representable(N, y) \/ N[y].k \notin {"doc", "elem"})
    /\ Usable(N, e.root)

\* element / attribute names in document order (C10: what the written names mean)
NameSeq(N, top) ==
    LET es == SelectSeq(PreNorm(N, top), LAMBDA x : N[x].k = "elem") IN
    [j \in 1..Len(es) |-> <<N[es[j]].ns, N[es[j]].ln, {<<N[a].ns, N[a].ln>> : a \in SeqRange(AttrKids(N, es[j]))}>>]

RoundTrip(j, e, prop) ==
    LET N == e.st.n  M == e.retree.n IN
    /\ e.res # "ok" => Report(j, prop, <<"does not serialise", e.res>>)
    /\ (e.res = "ok" /\ e.re # "ok") => Report(j, prop, <<"output is rejected by the parser", e.re>>)
    /\ (e.res = "ok" /\ e.re = "ok" /\ (ReRoot(e) = 0 \/ ~SameDocument(N, e.root, M, ReRoot(e))))
          => Report(j, prop, <<"reparse differs">>)

Judge(j) ==
    LET e == Rec[j]
        N == e.st.n
    IN IF StructDefect(N) # "none" THEN Report(j, "TOOL", <<"input state invalid">>)
       ELSE
       /\ (Wants(e, "roundtrip") /\ DefaultParams(e) /\ SerDomain(e)) => RoundTrip(j, e, "C01")
       /\ (Wants(e, "roundtrip") /\ ~DefaultParams(e) /\ ~e.indent /\ SerDomain(e)) => RoundTrip(j, e, "C14")
       /\ (Wants(e, "roundtrip") /\ e.indent /\ SerDomain(e) /\ ~e.frag) =>
            /\ e.res # "ok" => Report(j, "C14", <<"does not serialise", e.res>>)
            /\ (e.res = "ok" /\ e.re # "ok") => Report(j, "C14", <<"indented output is rejected by the parser", e.re>>)
            /\ (e.res = "ok" /\ e.re = "ok" /\ (ReRoot(e) = 0 \/ ~PrettyRelated(N, e.root, e.retree.n, ReRoot(e), PairSetS(e.suppress))))
                  => Report(j, "C14", <<"indentation changed the content">>)
       \* C10, first clause: whatever is written, the names mean what they meant
       /\ (Wants(e, "names") /\ e.res = "ok" /\ e.re = "ok" /\ N[e.root].p = 0 /\ N[e.root].k \in {"doc", "elem"}
              /\ (ReRoot(e) = 0 \/ NameSeq(N, e.root) # NameSeq(e.retree.n, ReRoot(e))))
            => Report(j, "C10", <<"a written name resolves to a different expanded name">>)
       /\ (Wants(e, "names") /\ e.res = "panic") => Report(j, "C10", <<"serialisation panicked">>)
       \* C16
       /\ Wants(e, "tokens") =>
            /\ (e.outres # "ok" \/ ~EventsMatch(e.outs, N, e.root)) => Report(j, "C16", <<"output events", e.outres>>)
            /\ (e.wres # e.res \/ e.wtext # e.text) => Report(j, "C16", <<"Write entry point differs from the string", e.wres>>)
            /\ (e.dwres # e.dres \/ e.dwtext # e.dtext) => Report(j, "C16", <<"write() differs from to_string()", e.dwres>>)
            /\ (DefaultParams(e) /\ (e.dres # e.res \/ e.dtext # e.text)) => Report(j, "C16", <<"to_string differs from serialize_xml_string(default)">>)
            /\ (e.res = "ok" /\ e.decl = 0 /\ ~e.indent /\ (e.tokres # "ok" \/ Flatten(e.toks) # e.text))
                  => Report(j, "C16", <<"token stream does not spell the string", e.tokres>>)
            /\ (e.res = "ok" /\ e.decl = 0 /\ e.indent /\ (e.ptokres # "ok" \/ ~PrettySpells(e.ptoks, e.text)))
                  => Report(j, "C16", <<"pretty token stream does not spell the pretty string", e.ptokres>>)
            /\ (e.res = "ok" /\ e.tokres = "ok" /\ e.outres = "ok"
                  /\ [q \in 1..Len(e.toks) |-> <<e.toks[q].n, e.toks[q].k>>] # [q \in 1..Len(e.outs) |-> <<e.outs[q].n, e.outs[q].k>>])
                  => Report(j, "C16", <<"tokens are not tagged like the output events">>)

\* serialisation with the normaliser NormF: the entry points agree with each other (C16), and the output is a
\* serialisation of the normalised tree (beyond the listed properties: reported as prop "X-NORM", never as a violation)
NReRoot(e) == IF e.st.n[e.root].k = "doc" THEN e.nreroot ELSE DocumentElement(e.nretree.n, e.nreroot)
NSerDomain(e, NN) ==
    /\ NN[e.root].p = 0
    /\ Representable(NN, e.root) \/ (e.frag /\ NN[e.root].k = "doc" /\ \A y \in SeqRange(NormKids(NN, e.root)) : Representable(NN, y) \/ NN[y].k \notin {"doc", "elem"})
    /\ Usable(NN, e.root)
JudgeNorm(j) ==
    LET e == Rec[j]  N == e.st.n  NN == NormForest(N) IN
    e.nres = "na" \/
    /\ Wants(e, "tokens") =>
         /\ (e.nwres # e.nres \/ e.nwtext # e.ntext) => Report(j, "C16", <<"Write entry point with a normaliser differs from the string one", e.nwres>>)
         /\ (e.nres = "ok" /\ e.decl = 0 /\ (e.ntokres # "ok" \/ Flatten(e.ntoks) # e.ntext))
               => Report(j, "C16", <<"token stream with a normaliser does not spell the string", e.ntokres>>)
         /\ (NN = N /\ NormJudgeable(N, e.root) /\ (e.nres # e.res \/ e.ntext # e.text)) => Report(j, "C16", <<"a normaliser that changes nothing changed the output">>)
    /\ (NormJudgeable(N, e.root) /\ SerDomain(e) /\ NSerDomain(e, NN)) =>
         /\ e.nres # "ok" => Report(j, "X-NORM", <<"does not serialise with a normaliser", e.nres>>)
         /\ (e.nres = "ok" /\ e.nre # "ok") => Report(j, "X-NORM", <<"normalised output is rejected by the parser", e.nre>>)
         /\ (e.nres = "ok" /\ e.nre = "ok" /\ (NReRoot(e) = 0 \/ ~SameDocument(NN, e.root, e.nretree.n, NReRoot(e))))
               => Report(j, "X-NORM", <<"output with a normaliser is not the normalised tree">>)

Init == i = 0
Next == i < Len(Rec) /\ i' = i + 1
Spec == Init /\ [][Next]_i
Judged == i = 0 \/ (Judge(i) /\ (StructDefect(Rec[i].st.n) # "none" \/ JudgeNorm(i)))
Consumed == TLCGet("stats").diameter = Len(Rec) + 1 \/ PrintT(<<"NOTCONSUMED", TLCGet("stats").diameter, Len(Rec)>>)
=============================================================================
