------------------------------ MODULE XotKnown ------------------------------
(***************************************************************************)
(* Named deviations: signatures of the genuine defects of the pinned xot   *)
(* that are recorded in /verif/known_findings.json with status "open".     *)
(* KnownId(prop, e, N, cons, detail) returns the id of the finding whose   *)
(* signature (operation, shape of the arguments relative to the pre-state, *)
(* result) the rejected event matches, or "" - in which case the rejection *)
(* is a VIOLATION.  A signature only takes effect while its id is listed   *)
(* as open (TraceForest!OpenKnown); "fixed" entries suppress nothing.      *)
(***************************************************************************)
EXTENDS XotForest

DeclsAtK(N, i) == IF N[i].k = "elem" THEN {<<N[x].ln, N[x].u>> : x \in SeqRange(NsKids(N, i))} ELSE {}

KnownId(prop, e, N, cons, detail) == ""

\* parser engine: e = the event (input + runs), entry = the entry point, detail = the rejection
KnownParse(prop, e, entry, detail) == ""

\* serialiser engine: e = the event (forest, root, parameters, results)
\* K-C10-unprefixed-element-under-default-namespace: an element in no namespace below a default-namespace declaration is
\* written unprefixed (and so lands in the default namespace).  Signature: the written names differ from the tree's
\* names exactly at such elements.
RECURSIVE DefaultNsB(_, _, _)
DefaultNsB(N, x, d) ==
    LET own == {b[2] : b \in {c \in DeclsAtK(N, x) : c[1] = ""}} IN
    IF own # {} THEN CHOOSE u \in own : TRUE ELSE IF d = 0 \/ N[x].p = 0 THEN "" ELSE DefaultNsB(N, N[x].p, d - 1)
NameSeqAsWritten(N, top) ==
    LET es == SelectSeq(PreNorm(N, top), LAMBDA x : N[x].k = "elem") IN
    [j \in 1..Len(es) |-> <<IF N[es[j]].ns = "" THEN DefaultNsB(N, es[j], Len(N)) ELSE N[es[j]].ns, N[es[j]].ln,
                             {<<N[a].ns, N[a].ln>> : a \in SeqRange(AttrKids(N, es[j]))}>>]
NameSeqK(N, top) ==
    LET es == SelectSeq(PreNorm(N, top), LAMBDA x : N[x].k = "elem") IN
    [j \in 1..Len(es) |-> <<N[es[j]].ns, N[es[j]].ln, {<<N[a].ns, N[a].ln>> : a \in SeqRange(AttrKids(N, es[j]))}>>]
DocElemK(N, x) == LET es == SelectSeq(NormKids(N, x), LAMBDA y : N[y].k = "elem") IN IF Len(es) = 0 THEN 0 ELSE es[1]

KnownSer(prop, e, detail) ==
    LET N == e.st.n
        rr == IF N[e.root].k = "doc" THEN e.reroot ELSE DocElemK(e.retree.n, e.reroot)
    IN IF prop = "C10" /\ detail[1] = "a written name resolves to a different expanded name" /\ rr # 0
            /\ NameSeqAsWritten(N, e.root) = NameSeqK(e.retree.n, rr)
       THEN "K-C10-unprefixed-element-under-default-namespace"
       ELSE IF prop = "C14" /\ e.frag /\ e.decl # 0 /\ detail[1] = "output is rejected by the parser"
       THEN "K-C14-declaration-on-fragment"
       ELSE ""

=============================================================================
