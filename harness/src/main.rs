#![recursion_limit = "512"]
//! xv — conformance harness binding the TLA+ specification in /verif/spec to the real xot crate.
//! Sub-commands write / read ndjson; TLC is the judge of every event (see /verif/DESIGN.md).
mod build;
mod forest;
mod html;
mod intern;
mod observe;
mod proj;
mod ser;
mod text;
mod rng;

use forest::{all_ops, random_op, step, Op};
use proj::World;
use rng::Rng;
use serde_json::{json, Value as J};
use std::io::{BufRead, BufWriter, Write};

fn arg(args: &[String], key: &str, default: &str) -> String {
    for i in 0..args.len() {
        if args[i] == key && i + 1 < args.len() {
            return args[i + 1].clone();
        }
    }
    default.to_string()
}
fn flag(args: &[String], key: &str) -> bool {
    args.iter().any(|a| a == key)
}

fn reset_event(w: &mut World) -> J {
    let post = w.project(None);
    let mut ev = Op::new("reset", &[]).to_json();
    let m = ev.as_object_mut().unwrap();
    m.insert("res".into(), json!("ok"));
    m.insert("ret".into(), json!(0));
    m.insert("rv".into(), json!([]));
    m.insert("has".into(), json!(false));
    m.insert("rvs".into(), json!(""));
    m.insert("post".into(), post);
    m.insert("views".into(), json!([]));
    m.insert("mid".into(), json!({"n": [], "cons": true}));
    let none = json!({"has": false, "res": "na", "re": "na", "root": 0, "retree": {"n": [], "cons": true, "eo": false, "rs": [], "bad": ""}, "reroot": 0, "text": []});
    m.insert("spre".into(), none.clone());
    m.insert("spost".into(), none);
    m.insert("back".into(), json!(0));
    ev
}

fn forest_drive(args: &[String]) {
    let seed: u64 = arg(args, "--seed", "1").parse().unwrap();
    let episodes: usize = arg(args, "--episodes", "100").parse().unwrap();
    let len: usize = arg(args, "--len", "40").parse().unwrap();
    let maxnodes: usize = arg(args, "--maxnodes", "24").parse().unwrap();
    let forced = arg(args, "--profile", "");
    let views = flag(args, "--views");
    let out = arg(args, "--out", "/dev/stdout");
    let mut f = BufWriter::new(std::fs::File::create(&out).expect("create out"));
    let mut master = Rng::new(seed);
    for ep in 0..episodes {
        let mut r = master.fork();
        let profile = if !forced.is_empty() {
            forced.as_str()
        } else {
            match ep % 5 {
                0 => "nocons",
                1 => "ws",
                _ => "std",
            }
        };
        let mut w = World::new();
        // start forest: sometimes a parsed document so that trees have depth from the start
        if r.chance(2, 3) {
            let docs = [
                "<a>x<b/>y<c>z</c></a>",
                "<a b='1'><b xmlns:p='u1' p:c='2'>t<p:a/>u</b><!--k--></a>",
                "<a xmlns='u1'><b xmlns=''> <c/> </b>x</a>",
                "<a xml:space='preserve'> <b xml:space='default'> <c/> x</b> </a>",
            ];
            let d = *r.pick(&docs);
            let _ = w.xot.parse(d).map(|n| w.id_of(n));
        }
        if profile == "nocons" {
            w.xot.set_text_consolidation(false);
            w.cons = false;
            w.ever_off = true;
        }
        let ev = reset_event(&mut w);
        writeln!(f, "{}", ev).unwrap();
        for _ in 0..len {
            if w.handles.len() > maxnodes + 40 || w.live_ids().len() > maxnodes {
                break;
            }
            let o = random_op(&w, &mut r, profile);
            let mut ev = forest::step_obs(&mut w, &o, views);
            ev.as_object_mut().unwrap().insert("back".into(), json!(1));
            let bad = ev["res"] == "panic" || w.corrupt;
            writeln!(f, "{}", ev).unwrap();
            if bad {
                break;
            }
        }
    }
    f.flush().unwrap();
}

/// states file: one JSON abstract state per line.  For every state and every operation instance: rebuild
/// the state in a fresh Xot (read back and compared), execute, log.
fn forest_replay(args: &[String]) {
    let states = arg(args, "--states", "");
    let out = arg(args, "--out", "/dev/stdout");
    let full = flag(args, "--full");
    let views = flag(args, "--views");
    let only: Vec<String> = arg(args, "--ops", "").split(',').filter(|x| !x.is_empty()).map(|x| x.to_string()).collect();
    let sample: u64 = arg(args, "--sample", "1").parse().unwrap(); // keep 1 of every `sample` op instances
    let seed: u64 = arg(args, "--seed", "1").parse().unwrap();
    let mut r = Rng::new(seed);
    let mut f = BufWriter::new(std::fs::File::create(&out).expect("create out"));
    let rd = std::io::BufReader::new(std::fs::File::open(&states).expect("open states"));
    let mut built = 0usize;
    for line in rd.lines() {
        let line = line.unwrap();
        if line.trim().is_empty() {
            continue;
        }
        let st: J = serde_json::from_str(&line).expect("state json");
        let mut w0 = match World::build(&st) {
            Ok(w) => w,
            Err(e) => {
                eprintln!("BUILDFAIL cannot rebuild state: {e}");
                continue;
            }
        };
        built += 1;
        let ev = reset_event(&mut w0);
        writeln!(f, "{}", ev).unwrap();
        let mut ops = all_ops(&w0, full);
        if !only.is_empty() {
            // restricted replay: the listed single-node operations on every live node
            ops = vec![];
            for id in w0.live_ids() {
                for name in &only {
                    ops.push(Op::new(name, &[id]));
                }
            }
        }
        let mut back = 0;
        for o in ops {
            if sample > 1 && r.next() % sample != 0 {
                continue;
            }
            let mut w = World::build(&st).unwrap();
            back += 1;
            let mut ev = forest::step_obs(&mut w, &o, views);
            ev.as_object_mut().unwrap().insert("back".into(), json!(back));
            writeln!(f, "{}", ev).unwrap();
        }
    }
    f.flush().unwrap();
    eprintln!("forest-replay: {built} states rebuilt");
}

/// Re-execute one saved scenario: {"pre": state, "ops": [op...]} and print the events.
fn forest_exec(args: &[String]) {
    let path = arg(args, "--scenario", "");
    let txt = std::fs::read_to_string(&path).expect("read scenario");
    let sc: J = serde_json::from_str(&txt).expect("scenario json");
    let mut w = match World::build(&sc["pre"]) {
        Ok(w) => w,
        Err(e) => {
            eprintln!("TOOLERROR cannot rebuild state: {e}");
            std::process::exit(2);
        }
    };
    let out = arg(args, "--out", "/dev/stdout");
    let mut f = BufWriter::new(std::fs::File::create(&out).expect("create out"));
    writeln!(f, "{}", reset_event(&mut w)).unwrap();
    for oj in sc["ops"].as_array().unwrap() {
        let o = Op::from_json(oj);
        let mut ev = step(&mut w, &o);
        ev.as_object_mut().unwrap().insert("back".into(), json!(1));
        writeln!(f, "{}", ev).unwrap();
    }
}

/// Engine B: one JSON job per line {"st": state, "what": [...], "pfx": [...], "uris": [...], "pairs": [[a,b],...],
/// "ign": [[[ns,ln],...],...]}; builds the state in a real Xot and logs the observations.
fn observe_cmd(args: &[String]) {
    let jobs = arg(args, "--jobs", "");
    let out = arg(args, "--out", "/dev/stdout");
    let mut f = BufWriter::new(std::fs::File::create(&out).expect("create out"));
    let rd = std::io::BufReader::new(std::fs::File::open(&jobs).expect("open jobs"));
    for line in rd.lines() {
        let line = line.unwrap();
        if line.trim().is_empty() {
            continue;
        }
        let job: J = serde_json::from_str(&line).expect("job json");
        let mut w = match World::build(&job["st"]) {
            Ok(w) => w,
            Err(e) => {
                eprintln!("BUILDFAIL cannot rebuild state: {e}");
                continue;
            }
        };
        // optionally a few random manipulation calls first: the tree that is observed is then one the crate has produced
        // itself (what the calls did is judged elsewhere; here the read-only APIs must agree with the tree as it now is)
        let nsteps = job["steps"].as_u64().unwrap_or(0);
        if nsteps > 0 {
            let mut r = Rng::new(job["seed"].as_u64().unwrap_or(1));
            let uniform = job["uniform"].as_bool().unwrap_or(false);
            for _ in 0..nsteps {
                let o = if uniform {
                    // every kind of call equally often: first the call, then one of its instances on this forest
                    let all = all_ops(&w, true);
                    let mut names: Vec<&str> = all.iter().map(|o| o.op.as_str()).collect();
                    names.sort();
                    names.dedup();
                    if let Some(only) = job["names"].as_array() {
                        names.retain(|n| only.iter().any(|x| x.as_str() == Some(*n)));
                    }
                    if names.is_empty() {
                        break;
                    }
                    let name = names[r.below(names.len())].to_string();
                    let inst: Vec<&Op> = all.iter().filter(|o| o.op == name).collect();
                    // (of four instances drawn, the one whose argument nodes have the most to lose: children, attributes, declarations)
                    let rich = |i: usize| -> usize {
                        let h = w.h(i);
                        w.xot.children(h).count() + 2 * w.xot.axis(xot::Axis::Attribute, h).count() + 2 * w.xot.namespace_declarations(h).len()
                            + usize::from(w.xot.previous_sibling(h).is_some())
                    };
                    // (a call on two different nodes, the second one movable, counts for more than a call that must be refused)
                    let weight = |o: &Op| -> usize {
                        let first = o.a.first().map(|i| rich(*i)).unwrap_or(0);
                        match o.a.get(1) {
                            Some(second) if o.a[0] == *second => 0,
                            Some(second) => first + 3 + usize::from(!w.xot.ancestors(w.h(o.a[0])).any(|n| n == w.h(*second))) * 3,
                            None => first,
                        }
                    };
                    let mut pick: &Op = inst[r.below(inst.len())];
                    for _ in 0..3 {
                        let other: &Op = inst[r.below(inst.len())];
                        if weight(other) > weight(pick) {
                            pick = other;
                        }
                    }
                    pick.clone()
                } else {
                    random_op(&w, &mut r, "")
                };
                let _ = step(&mut w, &o);
            }
        }
        let what: Vec<String> = job["what"].as_array().map(|a| a.iter().map(|x| x.as_str().unwrap_or("").to_string()).collect()).unwrap_or_default();
        let strs = |k: &str| -> Vec<String> {
            job[k].as_array().map(|a| a.iter().map(|x| x.as_str().unwrap_or("").to_string()).collect()).unwrap_or_default()
        };
        let mut ev = json!({"op": "observe", "what": what, "pfx": job["pfx"], "uris": job["uris"], "pairs": job["pairs"], "ign": job["ign"], "steps": nsteps});
        let m = ev.as_object_mut().unwrap();
        for k in ["pfx", "uris", "pairs", "ign"] {
            if m[k].is_null() {
                m.insert(k.into(), json!([]));
            }
        }
        if what.iter().any(|x| x == "scope") {
            let (p, u) = (strs("pfx"), strs("uris"));
            m.insert("scope".into(), observe::observe_scope(&mut w, &p, &u));
        }
        if what.iter().any(|x| x == "eq") {
            let pairs: Vec<(usize, usize)> = job["pairs"]
                .as_array()
                .map(|a| a.iter().map(|p| (p[0].as_u64().unwrap() as usize, p[1].as_u64().unwrap() as usize)).collect())
                .unwrap_or_default();
            let ign: Vec<Vec<(String, String)>> = job["ign"]
                .as_array()
                .map(|a| {
                    a.iter()
                        .map(|l| l.as_array().unwrap().iter().map(|n| (n[0].as_str().unwrap().to_string(), n[1].as_str().unwrap().to_string())).collect())
                        .collect()
                })
                .unwrap_or_default();
            m.insert("eq".into(), observe::observe_eq(&mut w, &pairs, &ign));
        }
        if what.iter().any(|x| x == "axes") {
            m.insert("axes".into(), observe::observe_axes(&w));
        }
        // the state as the real Xot shows it after the (read-only) observations
        let post = w.project(None);
        m.insert("post".into(), post);
        writeln!(f, "{}", ev).unwrap();
    }
    f.flush().unwrap();
}

fn jobs_cmd(args: &[String], f: fn(&J) -> J) {
    let jobs = arg(args, "--jobs", "");
    let out = arg(args, "--out", "/dev/stdout");
    let mut w = BufWriter::new(std::fs::File::create(&out).expect("create out"));
    let rd = std::io::BufReader::new(std::fs::File::open(&jobs).expect("open jobs"));
    for line in rd.lines() {
        let line = line.unwrap();
        if line.trim().is_empty() {
            continue;
        }
        let job: J = serde_json::from_str(&line).expect("job json");
        // the event is written before and after, so that a hang inside the call is attributable
        let ev = f(&job);
        if ev.is_null() {
            continue; // the scenario could not be built (logged separately as a build episode)
        }
        writeln!(w, "{}", ev).unwrap();
    }
    w.flush().unwrap();
}

fn main() {
    // panics inside the code under test are data: keep stderr quiet
    std::panic::set_hook(Box::new(|_| {}));
    let args: Vec<String> = std::env::args().collect();
    if args.len() < 2 {
        eprintln!("usage: xv <forest-drive|forest-replay|forest-exec> ...");
        std::process::exit(2);
    }
    match args[1].as_str() {
        "forest-drive" => forest_drive(&args[2..]),
        "forest-replay" => forest_replay(&args[2..]),
        "forest-exec" => forest_exec(&args[2..]),
        "observe" => observe_cmd(&args[2..]),
        "parse" => jobs_cmd(&args[2..], text::parse_job),
        "ser" => jobs_cmd(&args[2..], ser::ser_job),
        "html" => jobs_cmd(&args[2..], html::html_job),
        "build" => jobs_cmd(&args[2..], build::build_job),
        "churn" => churn(&args[2..]),
        "intern-drive" => {
            let a = &args[2..];
            intern::intern_drive(
                arg(a, "--seed", "1").parse().unwrap(),
                arg(a, "--episodes", "50").parse().unwrap(),
                arg(a, "--len", "80").parse().unwrap(),
                arg(a, "--big", "0").parse().unwrap(),
                &arg(a, "--out", "/dev/stdout"),
            )
        }
        other => {
            eprintln!("unknown sub-command {other}");
            std::process::exit(2);
        }
    }
}


/// Slot churn (C04, "is_removed stays true for ever"): allocate and remove a node `cycles` times, so that one arena slot is
/// reused over and over; at checkpoints allocate a live node and count the removed handles that look live again.
/// One JSON line per run: {"op":"churn","cycles":..,"resurrected":..,"first":.. (cycle of the first such handle or -1),
/// "aliases_live": does such a handle read the live node's text}.
fn churn(args: &[String]) {
    let cycles: usize = arg(args, "--cycles", "33000").parse().unwrap();
    let out = arg(args, "--out", "/dev/stdout");
    let mut f = BufWriter::new(std::fs::File::create(&out).expect("create out"));
    for kind in ["text", "element", "attribute"] {
        let mut x = xot::Xot::new();
        let name = x.add_name("a");
        let mut handles = vec![];
        let r = std::panic::catch_unwind(std::panic::AssertUnwindSafe(|| {
            for _ in 0..cycles {
                let n = match kind {
                    "text" => x.new_text("t"),
                    "element" => x.new_element(name),
                    _ => x.new_attribute_node(name, "v".to_string()),
                };
                x.remove(n).unwrap();
                handles.push(n);
            }
            let live = x.new_text("live");
            let mut resurrected = 0usize;
            let mut first: i64 = -1;
            let mut aliases = false;
            for (i, h) in handles.iter().enumerate() {
                if !x.is_removed(*h) {
                    resurrected += 1;
                    if first < 0 {
                        first = i as i64;
                        aliases = x.text_str(*h) == Some("live");
                    }
                }
            }
            (resurrected, first, aliases, x.is_removed(live))
        }));
        let ev = match r {
            Ok((res, first, aliases, live_removed)) => json!({"op": "churn", "kind": kind, "cycles": cycles, "resurrected": res, "first": first,
                                                              "aliases_live": aliases, "live_reads_removed": live_removed, "panic": false}),
            Err(_) => json!({"op": "churn", "kind": kind, "cycles": cycles, "resurrected": 0, "first": -1, "aliases_live": false, "live_reads_removed": false, "panic": true}),
        };
        writeln!(f, "{}", ev).unwrap();
    }
}
