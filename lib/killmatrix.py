#!/usr/bin/env python3
"""Development aid: print the kill matrix of DESIGN.md section 12 from seeded/*/meta.json.
The 'first run' column comes from the table below (what happened the first time the property's quick check met the change,
before anything was strengthened for it); the 'now' column from meta.json (the last recorded run)."""
import json, os, re, sys

ROOT = os.path.dirname(os.path.dirname(os.path.abspath(__file__)))
# seeds the property's quick check did not report the first time, and what was changed in the machinery because of it
FIRST_MISSED = {
    "C01-A": "MCScope layouts added to the C01 / C14 round trips (xmlns=\"\" under a default declaration)",
    "C04-B": "damage catalogue: duplicate by expanded name on an element that inherits both prefixes",
    "C08-B": "interning strings with leading / trailing white space, case variants",
    "C12-B": "a state the builder cannot reconstruct is a judged construction episode, not a tool error",
    "C13-B": "near-duplicate mutations of PI target / PI data / comment text",
    "C14-A": "all bracket strings over ] > x < & CR up to length 4 (5 thorough) in every parameter combination",
    "C16-B": "suppress lists of several names in non-ascending NameId order",
    "C17-B": "invalid references late in long character data and inside attribute values",
    "C20-B": "up to three leading and trailing comments / PIs around the document element",
    "C08-C": "lookups of what an accepted parse registered implicitly (decoded namespace, names) must succeed; also caught by C02, the property it breaks most directly",
    "C08-D": "rejected parses that have already registered strings (unknown prefix, mismatched end tag ...) among the opaque calls; panics of the tables are logged as events",
    "C19-C": "HTML text / attribute values built from digraphs (&{ &# &amp &x; ]]> </) instead of single characters",
    "C19-D": "MCHtmlNs: 11 232 layouts of prefixed / generated declarations around void elements and later siblings",
    "C01-F": "PI targets that start with the reserved name (xml-stylesheet, xmlx, XmL1) in forests and rendered documents",
    "C02-E": "Latin-1 / windows-1252 documents whose high bytes happen to form well-formed UTF-8 (Ã© = C3 A9)",
    "C05-E": "explicitly created EMPTY text nodes: enumerated forests with one text node emptied, and 'sandwich' forests (text / non-text alternating, texts possibly empty) under every call",
    "C08-E": "interning texts with a prefix (or the default namespace) rebound on an inner element and used again behind it: both expanded names must be found afterwards; also reported by C02",
    "C12-F": "xml_id_node of a document created by the call must lie inside it (new clause under C12); clone profile parses xml:id documents and clones whole documents",
    "C14-E": "a non-ASCII character in the bracket strings (] > x < CR e-acute up to length 4 / 5)",
    "C17-F": "any white space between a PI's target and its data (two spaces, newline + indent, CR LF)",
    "C18-E": "MCWs restructured: doc / d / r[xml:space] / a[xml:space] / K with white space (and an element holding white space) behind r - 24 864 layouts",
    "C20-E": "attributes and declarations also built as nodes (new_attribute_node + append_attribute_node / any_append) in the stepwise programs",
    "C20-F": "75 'scope exit' documents (a binding made or shadowed on an inner element must be gone again behind it) in several spellings, for C20 and C02 / C03 / C17",
}


def main():
    rows = []
    for d in sorted(os.listdir(os.path.join(ROOT, "seeded"))):
        mp = os.path.join(ROOT, "seeded", d, "meta.json")
        if not os.path.exists(mp):
            continue
        m = json.load(open(mp))
        n = m.get("needs_to_manifest", "")
        t = n.split("##")[0].strip("# ").strip()
        t = re.sub(r"^(C\d\d[- ]?(seeded )?(mutant )?[AB]|Mutant [AB]|C\d\d-[AB])\s*[-:—(]+\s*", "", t, flags=re.I)
        p = open(os.path.join(ROOT, "seeded", d, "patch.diff")).read()
        files = sorted(set(re.findall(r"^\+\+\+ b/src/(\S+)", p, re.M)))
        first = "missed" if d in FIRST_MISSED else "caught"
        now = ", ".join(m["caught_by"]) or "MISSED"
        rows.append("| %s | `%s` | %s | %s | %s |" % (d, ", ".join(files), t[:150].replace("|", "/"), first, now))
    print("| seed | file | change | first run | reported now by |")
    print("|---|---|---|---|---|")
    print("\n".join(rows))
    print()
    for k, v in FIRST_MISSED.items():
        print(f"* **{k}** - {v}")


if __name__ == "__main__":
    main()
